"""CLI:  python3-vt -B -m vf.check <ID> --tier quick|thorough

Runs every job of one property in a pool of fresh processes, classifies the
leaves, replays counterexamples on the test-suite interpreter, writes
/verif/evidence/<ID>.json and prints VIOLATION / KNOWN-FINDING lines.
exit 0 = held on everything explored (inconclusive jobs are listed in the
evidence), 1 = violation, 3 = harness error.
"""
import argparse
import glob
import importlib
import json
import os
import re
import subprocess
import sys
import time

import vf
from vf.job import run_job

VERIF = vf.VERIF
OUT = os.environ.get('VERIF_OUT') or VERIF   # evidence/ and replays/ go here (seed evaluation redirects it)
REPLAY_PY = '/venv/bin/python' if os.path.exists('/venv/bin/python') else sys.executable


def load_known():
    p = os.path.join(VERIF, 'known_findings.json')
    if not os.path.exists(p):
        return []
    return json.load(open(p)).get('findings', [])


def matches(entry, prop, jobname, v):
    if entry.get('property') != prop or entry.get('status') != 'open':
        return False
    if entry.get('job') and not re.search(entry['job'], jobname):
        return False
    if entry.get('label') and not re.search(entry['label'], v.get('label') or ''):
        return False
    site = (v.get('detail') or {}).get('site') or ''
    if entry.get('site') and not re.search(entry['site'], site):
        return False
    for k, rx in (entry.get('args_match') or {}).items():
        if k not in v['args'] or not re.fullmatch(rx, json.dumps(v['args'][k]) if not isinstance(
                v['args'][k], str) else v['args'][k], re.S):
            return False
    return True


def replay_external(path):
    """-> True when the violation reproduces on the plain test-suite interpreter"""
    env = dict(os.environ)
    env['PYTHONPATH'] = VERIF + os.pathsep + vf.REPO
    env['PYTHONDONTWRITEBYTECODE'] = '1'
    try:
        r = subprocess.run([REPLAY_PY, '-B', '-m', 'vf.replay', path], cwd=VERIF, env=env,
                           capture_output=True, text=True, timeout=300)
    except subprocess.TimeoutExpired:
        return True, 'replay timed out (non-termination)'
    return (r.returncode == 1 and 'REPLAY-VERDICT REPRODUCED' in r.stdout), (r.stdout + r.stderr)[-1500:]


def run_all(jobs, workers, should_stop=lambda: False):
    """Every job runs in its own interpreter (fresh module state) with a hard wall-clock limit: a path that never
    returns (solver or engine stuck) costs that job, not the whole check."""
    import tempfile
    tmp = tempfile.mkdtemp(prefix='vfjobs-')
    pending = list(jobs)
    running = []
    env = dict(os.environ)
    env['PYTHONPATH'] = VERIF + os.pathsep + vf.REPO + os.pathsep + env.get('PYTHONPATH', '')
    n = 0
    try:
        while pending or running:
            if pending and should_stop():
                pending = []          # seed evaluation only (VERIF_FAST_FAIL): a new violation is already on the table
            while pending and len(running) < workers:
                j = pending.pop(0)
                n += 1
                sp = os.path.join(tmp, '%d.spec.json' % n)
                rp = os.path.join(tmp, '%d.res.json' % n)
                json.dump(j.spec(), open(sp, 'w'))
                p = subprocess.Popen([sys.executable, '-B', '-m', 'vf.jobrun', sp, rp], cwd=VERIF, env=env,
                                     stdout=subprocess.DEVNULL, stderr=open(rp + '.err', 'wb'))
                hard = j.budget * 1.5 + j.twin_budget + 180
                running.append((p, j, rp, time.time() + hard))
            time.sleep(0.05)
            still = []
            for (p, j, rp, deadline) in running:
                rc = p.poll()
                if rc is None and time.time() < deadline:
                    still.append((p, j, rp, deadline))
                    continue
                if rc is None:
                    p.kill()
                    p.wait()
                    yield {'name': j.name, 'bound': j.bound, 'shape': j.shape, 'params': j.params, 'status': 'inconclusive',
                           'note': 'hard wall-clock limit hit (engine or solver did not return)', 'wall_s': round(
                               time.time() - (deadline - (j.budget * 1.5 + j.twin_budget + 180)), 1)}
                    continue
                try:
                    yield json.load(open(rp))
                except Exception:
                    err = open(rp + '.err', 'rb').read().decode(errors='replace')[-1500:]
                    yield {'name': j.name, 'bound': j.bound, 'shape': j.shape, 'params': j.params, 'status': 'error',
                           'error': 'worker exited with %s: %s' % (rc, err)}
            running = still
    finally:
        for (p, j, rp, deadline) in running:
            p.kill()
        subprocess.run(['rm', '-rf', tmp])


def main(argv=None):
    ap = argparse.ArgumentParser()
    ap.add_argument('prop')
    ap.add_argument('--tier', default=os.environ.get('VERIF_TIER') or 'quick',
                    choices=['quick', 'thorough'])
    ap.add_argument('--only', default=None, help='regex on job names (debugging; evidence says so)')
    ap.add_argument('--workers', type=int, default=int(os.environ.get('VERIF_WORKERS', '14')))
    a = ap.parse_args(argv)
    prop = a.prop.upper()
    seed = int(os.environ.get('VERIF_SEED', '0') or 0)
    t0 = time.time()
    mod = importlib.import_module('vf.props.%s' % prop.lower())
    jobs = mod.jobs(a.tier)
    if a.only:
        jobs = [j for j in jobs if re.search(a.only, j.name)]
    jobs.sort(key=lambda j: -j.weight)
    results = []
    known0 = load_known()
    fast = os.environ.get('VERIF_FAST_FAIL') == '1'     # used by tools/seed_eval.py only; the evidence then says so
    hit = [False]
    for r in run_all(jobs, a.workers, (lambda: hit[0]) if fast else (lambda: False)):
        results.append(r)
        if fast and any(not any(matches(e, prop, r['name'], v) for e in known0) for v in r.get('violations', [])):
            hit[0] = True
        ex = r.get('explore') or {}
        print('[%s] %-58s %-12s leaves=%-6s holds=%-6s unk=%-3s cpu=%ss %s' % (
            prop, r['name'][:58], r['status'], ex.get('leaves', '-'), ex.get('holds', '-'),
            ex.get('unknown', '-'), ex.get('cpu_s', '-'), (r.get('note') or '')[:60]),
            flush=True)
    results.sort(key=lambda r: r['name'])

    known = load_known()
    os.makedirs(os.path.join(OUT, 'replays'), exist_ok=True)
    for old in glob.glob(os.path.join(OUT, 'replays', '%s-*.json' % prop)):
        os.remove(old)
    new_viol, known_seen, nonrepro = [], {}, []
    nrep = 0
    specs = {j.name: j for j in jobs}
    for r in results:
        for v in r.get('violations', []):
            ent = next((e for e in known if matches(e, prop, r['name'], v)), None)
            if ent is not None:
                known_seen.setdefault(ent['id'], {'entry': ent, 'count': 0, 'example': v['args']})
                known_seen[ent['id']]['count'] += 1
                continue
            sig = '%s|%s|%s' % (r['name'], (v.get('label') or '').split(':')[0], (v.get('detail') or {}).get('site'))
            if sum(1 for x in new_viol if x['sig'] == sig) >= 3:
                continue  # keep at most 3 replays per signature
            nrep += 1
            path = os.path.join(OUT, 'replays', '%s-%d.json' % (prop, nrep))
            j = specs[r['name']]
            json.dump({'property': prop, 'job': r['name'], 'make': j.make, 'params': j.params,
                       'args': v['args'], 'label': v.get('label'), 'detail': v.get('detail'),
                       'origin': v.get('origin')}, open(path, 'w'), indent=1)
            ok, log = replay_external(path)
            if ok:
                new_viol.append({'sig': sig, 'path': path, 'job': r['name'], 'args': v['args'],
                                 'label': v.get('label'), 'detail': v.get('detail')})
            else:
                nonrepro.append({'path': path, 'job': r['name'], 'log': log})

    # evidence -------------------------------------------------------------------------
    def tot(k):
        return sum((r.get('explore') or {}).get(k, 0) or 0 for r in results)
    inconclusive = [{'job': r['name'], 'why': r.get('note', r['status'])} for r in results
                    if r['status'] in ('inconclusive',)]
    herr = [{'job': r['name'], 'why': r.get('note') or r.get('error', '')[-400:]}
            for r in results if r['status'] in ('harness_error', 'error')]
    herr += [{'job': n['job'], 'why': 'counterexample did not reproduce on %s' % REPLAY_PY}
             for n in nonrepro]
    skipped_jobs = [r['name'] for r in results if r['status'] == 'skipped']
    samples = []
    for r in results:
        for s in (r.get('samples') or [])[:2]:
            samples.append({'job': r['name'], 'input': s})
    samples = samples[:40] or [{'note': 'no leaf sampled'}]
    fe = sorted(set(f for r in results for f in r.get('functions_entered', [])))
    fd = sorted(set(f for r in results for f in r.get('functions_declared', [])))
    meta = getattr(mod, 'META', {})
    exhaustive = bool(results) and all(r['status'] == 'holds' for r in results)
    ev = {
        'property_id': prop, 'tier': a.tier, 'seed': seed, 'level': 'model_checking',
        'coverage': {
            'states': tot('leaves'),
            'transitions': tot('z3_calls'),
            'traces_validated_against_impl': sum(r.get('witnesses', 0) + len(r.get('samples') or [])
                                                 + len(r.get('violations') or []) for r in results),
            'evaluations': tot('leaves'),
            'distinct_nontrivial': tot('symbolic_holds'),
            'rule': ('one evaluation = one leaf of the symbolic path tree of a harness over the real '
                     'emmet code (each leaf stands for every input that takes the same branches); '
                     'distinct_nontrivial counts leaves on which the oracle held AND at least one '
                     'branch was decided by z3 on a symbolic value. states = leaves, transitions = '
                     'z3 check() calls. ' + meta.get('rule', '')),
            'samples': samples,
            'exhaustive': exhaustive,
            'explanation': 'exhaustive=true means: every job exhausted its path tree within its '
                           'stated bound with no UNKNOWN leaf; it is a bounded claim.',
            'jobs': [{k: r.get(k) for k in ('name', 'shape', 'bound', 'status', 'note', 'explore',
                                           'witnesses', 'witnesses_holding', 'twin', 'vacuous',
                                           'unknown_reasons', 'unknown_rechecked', 'wall_s')}
                     for r in results],
            'functions_encoded': fe or fd,
            'functions_declared': fd,
            'bounds': meta.get('bounds', {}).get(a.tier, ''),
            'outside_claim': meta.get('outside_claim', []),
            'inconclusive': inconclusive,
            'harness_errors': herr,
            'skipped_jobs': skipped_jobs,
            'known_findings_seen': [{'id': k, 'leaves': v['count'], 'example': v['example']}
                                    for k, v in known_seen.items()],
            'queries_discharged': tot('z3_calls'),
            'solver_time_s': round(tot('z3_s'), 2),
            'cpu_s': round(tot('cpu_s'), 1),
            'only_filter': a.only,
            'fast_fail': fast,
        },
        'assumptions': sorted(set(x for r in results for x in r.get('assumptions', []))) +
        meta.get('stubs', []),
        'wall_s': round(time.time() - t0, 2),
        'violations': len(new_viol),
    }
    os.makedirs(os.path.join(OUT, 'evidence'), exist_ok=True)
    json.dump(ev, open(os.path.join(OUT, 'evidence', '%s.json' % prop), 'w'), indent=1,
              default=str)

    for k, v in known_seen.items():
        print('KNOWN-FINDING: property=%s %s (%d leaves; e.g. %s)' % (
            prop, v['entry']['note'], v['count'], json.dumps(v['example'])[:120]))
    for v in new_viol:
        print('VIOLATION property=%s replay=%s' % (prop, v['path']))
        print('   job=%s label=%s args=%s detail=%s' % (v['job'], v['label'],
                                                        json.dumps(v['args'])[:300], v['detail']))
    print('[%s] tier=%s jobs=%d leaves=%d holds=%d z3=%d/%.1fs wall=%.1fs exhaustive=%s '
          'inconclusive=%d harness_errors=%d violations=%d known=%d' % (
              prop, a.tier, len(results), tot('leaves'), tot('holds'), tot('z3_calls'), tot('z3_s'),
              time.time() - t0, exhaustive, len(inconclusive), len(herr), len(new_viol),
              len(known_seen)))
    for h in herr:
        print('HARNESS-ERROR job=%s %s' % (h['job'], h['why'][-600:]))
    for i in inconclusive:
        print('INCONCLUSIVE job=%s %s' % (i['job'], i['why']))
    if new_viol:
        return 1
    if herr:
        return 3
    return 0


if __name__ == '__main__':
    sys.exit(main())
