"""Regenerates /verif/MANIFEST.json from the table below:  python3 -m vf.manifest"""
import json
import os

VERIF = os.path.dirname(os.path.dirname(os.path.abspath(__file__)))
BASE = ('cd /repo && /venv/bin/python -m pytest -ra -q -p no:cacheprovider --timeout=900 '
        '--continue-on-collection-errors')
TB = ('Trusted base: CrossHair 0.0.110 (its models of str/int/list/dict and its path tree), z3 5.1.0, '
      'CPython 3.11 for exploration (counterexamples are re-run on CPython 3.12 /venv before being reported), '
      'the harness oracle restating the property, and the stated bound; nothing is claimed outside the bound.')

# id -> (technique, level text, design ref)  -- only properties whose module exists are claimed
CLAIMS = {
    'C01': ('bounded symbolic execution (CrossHair/z3) of the real expand() pipeline: operator skeletons chosen by solver-decided '
            'selectors, symbolic repeat counts, reference tree builder as oracle',
            'Every well-formed operator skeleton up to the stated number of items (solver-driven case split) with symbolic repeat '
            'counts, under three self-closing styles and format on/off, goes through the real tokenizer, parser, converter, '
            'transforms and HTML writer; the output must equal the serialised reference tree. Chains of 6 (thorough 7) elements joined by every sequence of '
            '> + ^ ^^ ^^^ ^^^^ (plain, in a group, in a repeated group under a parent) extend the depth beyond the skeleton bound.', '§3 C01, §8'),
    'C02': ('bounded symbolic execution (CrossHair/z3): counter kernel with symbolic width/base/count/index, tokenizer recognition '
            'over all short strings, expand() templates with symbolic counts, numbering parameters and maxRepeat',
            'Counter formatting is decided for all widths<=6 and bases/counts<=10^5 symbolically; copy counts, counter inheritance '
            'through groups and the maxRepeat cut-off are decided on a template family with symbolic N, M, width, base, '
            'direction and limit against a reference unroller.', '§3 C02'),
    'C03': ('bounded symbolic execution (CrossHair/z3) of expand() on one element with solver-chosen attribute mention kinds/names '
            'and symbolic values injected at the token boundary; reference merge as oracle; character-level value harness',
            'All sequences of up to K attribute mentions (11 kinds x 5 names) with symbolic 1-2 character values under 10 '
            'option/syntax sets; output observed through the documented output.text callback and compared with the reference '
            'merge (option pairs included: case+mapping, case/mapping under jsx, compact+case, reverse+quotes); every mention kind on an element '
            'repeated through itself, a group or its parent; quoted/unquoted/shorthand values also go through the real tokenizer character by character.', '§3 C03, §8'),
    'C04': ('bounded symbolic execution (CrossHair/z3): `ex{t}` with every short payload through the real tokenizer, token-level '
            'payload placements, wrap-text templates with symbolic lines; reference un-escaper / placement as oracle',
            'Inline text: every Latin-1 payload up to the stated length that closes itself goes through the real tokenizer and must '
            'come out verbatim (un-escaped); wrap text: templates with implicit repeaters and 1-3 symbolic lines (blank lines, syntax '
            'look-alikes included) must yield one copy per non-blank line with the trimmed line at the documented place; multi-line text in one '
            'element (repeated and blank lines, html and the indent syntaxes) keeps every line in order.', '§3 C04, §8.1'),
    'C12': ('differential bounded symbolic execution (CrossHair/z3): the same template expanded under two option sets with sentinel '
            'indent strings; symbolic inlineBreak, repeat counts and payload',
            'For each template and syntax of the HTML writer: format on (any inlineBreak, leaf formatting, formatSkip/Force choices) '
            'equals format off after deleting sentinel whitespace; indentation after every newline equals the open-element depth; '
            'comments add only comment text; self-closing styles differ only before `>`.', '§3 C12'),
    'C13': ('bounded symbolic execution (CrossHair/z3): inductive step of each OutputStream operation from a symbolic pre-state, and '
            'expand() templates with recording output.text/output.field callbacks',
            'Step lemmas: from ANY integer offset/line/column every OutputStream operation hands its callbacks exactly the position '
            'where their returned text lands and leaves a consistent state (covers runs of any length by induction). End to end: '
            'for each template x syntax, tabstops are numbered 1,2,3.. in document order without collisions and every callback '
            'position equals the prefix sum of the text returned before it.', '§3 C13'),
    'C14': ('bounded symbolic execution (CrossHair/z3): solver-chosen index over every built-in markup snippet, alias vs definition '
            'differential with symbolic decoration payloads; user tables with several top-level nodes; all 729 cyclic 3-key tables',
            'Table-exhaustive: for every built-in html/xsl/pug snippet expand(alias) equals expand(definition), also with an added '
            'attribute, text, repeater, self-closing mark or child where the definition is a single element chain; user snippets '
            'with several top-level nodes get alias data on every top-level node and children in the deepest; resolution terminates '
            'with nesting <= 3 for every table of 3 keys over 9 (cyclic) bodies; a resolution that fails inside a nested definition leaves later resolutions unchanged.', '§3 C14, §8'),
    'C15': ('bounded symbolic execution (CrossHair/z3): C01 operator skeletons rendered by the haml/pug/slim writers against a reference '
            'line writer; decorated templates with a symbolic indent string and payload',
            'All well-formed skeletons up to the stated size x 3 syntaxes must produce exactly one line per element at its depth '
            '(reference line writer over the same reference tree as C01, so the tree equals the HTML tree by construction); '
            'id/class/attribute/text/multi-line layouts are checked for every indent string of spaces/tabs within the bound.', '§3 C15'),
    'C09': ('bounded symbolic execution (CrossHair/z3) of the real HTML matcher on documents assembled from solver-chosen events with '
            'recorded ground truth, symbolic integer position; symbolic content holes',
            'Every well-formed document of up to K events (open, open+attributes, close, void, self-closed, comment/CDATA/PI/text, '
            'script/style) x every integer position: match() is the innermost strictly enclosing element with exact open/close/'
            'attribute ranges, balanced_outward lists all enclosing elements, balanced_inward the first-child chain; comment, CDATA, '
            'PI, script and attribute-value contents of up to n free characters never contribute or move tags. Every ordered forest of 6 (thorough 7) elements with rotating '
            'leaf kinds extends nesting depth and sibling count beyond the event bound.', '§3 C09, §8'),
    'C10': ('bounded symbolic execution (CrossHair/z3) of the real CSS matcher on stylesheets assembled from solver-chosen events with '
            'recorded ground truth, symbolic integer position; symbolic content holes',
            'Every well-formed stylesheet of up to K events (rules, at-rules, nested rules, semicolon-terminated declarations, comments; '
            'several top-level rules) x every integer position: match() is the innermost declaration/rule with exact ranges, '
            'balanced_outward lists value, declaration and every enclosing rule (content, full), balanced_inward the first-child chain; '
            'string/comment/parenthesis/selector/value contents of up to n free characters never delimit anything. Every ordered forest of 6 (thorough 7) '
            'nodes extends nesting depth beyond the event bound.', '§3 C10, §8'),
    'C11': ('bounded symbolic execution (CrossHair/z3) of the real extract_abbreviation over all short lines x all integer carets x '
            'option sets, plus templates with concrete valid abbreviations and symbolic left/right context',
            'Consistency clauses: path tree of the real extractor exhausted for every ASCII line up to the stated length, every '
            'integer caret and every option set. Round trip: for each abbreviation of a generated family and every symbolic '
            'left/right context within the bound, extraction at its end returns exactly that abbreviation.', '§3 C11'),
    'C16': ('bounded symbolic execution (CrossHair/z3) of the real scanners and matchers over all short strings x all integer positions',
            'Every ASCII string up to the stated length and every integer position: the path tree of the real '
            'HTML/CSS scanners, matchers, balance functions, attribute parser and value splitter is exhausted; '
            'each leaf checks totality and range well-formedness.', '§3 C16'),
    'C17': ('bounded symbolic execution (CrossHair/z3) of the real action helpers on generated HTML/CSS documents with recorded ground truth '
            '(same event generators as C09/C10), symbolic integer position; symbolic class-token and value-token holes',
            'Every document of up to K events x every integer position: get_open_tag, select_item_html (next/previous), get_css_section '
            'with properties and select_item_css (next/previous) return exactly the recorded tag, attribute, unquoted-value, class-token, '
            'declaration name/value/value-token/before/after ranges; the same on every ordered forest of 6 (thorough 7) nodes in both languages.', '§3 C17, §8'),
    'C18': ('bounded symbolic execution (CrossHair/z3) of both real tokenizers over all short strings',
            'Every ASCII string up to the stated length through the real markup and stylesheet tokenizers '
            '(property and value mode); each leaf checks that spans tile the input or a scanner error with an '
            'in-range position is raised.', '§3 C18'),
    'C19': ('z3 queries over real-valued operands injected into the real parse/order_tokens/evaluate (one query per '
            'operator skeleton) + bounded symbolic execution of evaluate/extract over all short strings',
            'Value clause: for each operator skeleton one z3 query shows the real evaluator equals the reference '
            'expression tree for ALL real operand values (unsat), cross-checked with cvc5. Error and extract clauses: '
            'path tree of the real functions exhausted for all short ASCII strings and positions.', '§3 C19'),
}

CLAIMS['C20'] = ('bounded symbolic execution (CrossHair/z3) of Config/merged_data with symbolic layer presence bits and values, solver-chosen key and '
                 'syntax; expand() observation with layer assignments as selectors',
                 'For every key of the pools (defined only in built-in defaults / also in a type default / also in a syntax default), every '
                 'known syntax of both types plus xhtml and unknown names, and every subset of the overridable layers with arbitrary values: '
                 'the resolved value comes from the most specific layer, other keys keep their built-in value, built-in tables and caller '
                 'dictionaries are unchanged; the same order is observed through expand() output, also for the second of two calls with independent layer '
                 'assignments (config/global passed, empty or omitted).', '§3 C20, §8')

CLAIMS['C07'] = ('bounded symbolic execution (CrossHair/z3) of the whole real expand() over all short strings, and over abbreviations assembled from '
                 'solver-chosen multi-character pieces, under 16 configurations',
                 'Every ASCII string up to the stated length through tokenizer, parser, converter, resolvers and formatters under the engine '
                 '(markup), stylesheet tokenizer+parser likewise, and every sequence of up to K pieces covering all token classes of both '
                 'languages under 16 option sets: the call returns a string or raises one of the two parse errors with an in-range position.',
                 '§3 C07')

CLAIMS['C05'] = ('bounded symbolic execution (CrossHair/z3): expand() on value sequences assembled from solver-chosen number shapes/units with symbolic '
                 'unit options; exhaustive channel printers; colour-form selection with symbolic channels',
                 'Every sequence of up to K values over 9 number shapes x 8 units on unit-taking and unitless properties, with symbolic '
                 'intUnit/floatUnit strings, is compared piece by piece with a reference model of the value language; hex printers are value-'
                 'preserving for every channel 0..255 and the short/long/rgba/transparent form is selected correctly for all 2^24 colours '
                 '(printers + selection lemma compose); 20 colour spellings end to end; 13 numbers with 7+ significant digits or unusual zero spellings.', '§3 C05, §8.1')

CLAIMS['C06'] = ('bounded symbolic execution (CrossHair/z3) with solver-chosen indices over the whole stylesheet snippet table, keyword table, scope and '
                 'user-key pairs; expectation from a reference reader of the definition text',
                 'Table-exhaustive: every key expands to the property/first value (or raw body) read from its own definition, with and without '
                 'scope; every single-word keyword alternative resolves in three letter-case patterns; for every ordered pair of user keys over '
                 '{q,w,-} the typed key reaches its own snippet (direct-hit shortcut cannot pre-empt it); user snippets replace built-ins; function keywords '
                 'resolve by name also after a use with arguments (same abbreviation / earlier call sharing the cache); user raw snippets keep their placeholder texts.',
                 '§3 C06, §8')

CLAIMS['C08'] = ('bounded model checking over call histories with the solver (CrossHair/z3) choosing history, probe and sharing pattern; real expand() calls, '
                 'snapshots of caller objects and of module-level state',
                 'Every history of up to K calls from a 20-call menu (markup/stylesheet, raising calls, wrap text, BEM, scopes, user snippets, '
                 'different units) followed by every probe, with and without a shared cache, with caller configs re-used as dict or Config: the '
                 'probe equals its pristine result, re-used configs keep giving their pristine result, caller dictionaries and every mutable '
                 'module-level container / function default of emmet.* are unchanged. Pristine results are computed in freshly forked processes, one per call.', '§3 C08, §8.1')

NOT_YET = {}


def main():
    props = [json.loads(l) for l in open(os.path.join(VERIF, 'properties.jsonl'))]
    checks, na = [], []
    for p in props:
        pid = p['id']
        have = os.path.exists(os.path.join(VERIF, 'vf', 'props', pid.lower() + '.py'))
        if pid in CLAIMS and have:
            tech, text, ref = CLAIMS[pid]
            checks.append({
                'property_id': pid,
                'quick_cmd': 'python3-vt -B -m vf.check %s --tier quick' % pid,
                'thorough_cmd': 'python3-vt -B -m vf.check %s --tier thorough' % pid,
                'evidence_file': '/verif/evidence/%s.json' % pid,
                'replay_cmd_template': '/venv/bin/python -B -m vf.replay {path}',
                'engine': 'crosshair-z3',
                'level_claimed': {'category': 'model_checking', 'text': text, 'design_ref': 'DESIGN.md ' + ref},
                'level_note': TB,
                'technique': tech,
            })
        else:
            na.append({'property_id': pid, 'reason': NOT_YET.get(
                pid, 'check not built yet in this session (planned: bounded symbolic execution, see DESIGN.md §3)')})
    m = {
        'version': 1,
        'setup_cmd': 'python3-vt -B -c "import crosshair, z3, sys; sys.path.insert(0, \'/repo\'); import emmet; print(\'ok\')"',
        'hooks': {
            'guard': 'PY_EMMET_VERIF',
            'enable': 'no source hooks are needed: harnesses import the real modules from /repo and reach in from outside',
            'baseline_off_cmd': BASE,
            'source_commits': [],
            'add_only': True,
        },
        'engines': [{'name': 'crosshair-z3', 'path': '/verif/vf/sx.py',
                     'serves_properties': [c['property_id'] for c in checks],
                     'kind_free_text': 'symbolic execution of the real Python source with CrossHair 0.0.110, every '
                                       'branch decided by z3; own exploration loop that classifies all leaves; '
                                       'C19-a talks to z3 directly'}],
        'checks': checks,
        'not_applicable': na,
        'notes': 'All checks: cwd=/verif, interpreter python3-vt (tooling venv), code under test imported from /repo '
                 'at run time (no copy, no cache). exit 0 held / 1 VIOLATION / 3 harness error. Genuine defects found '
                 'while building were repaired in /repo by `fix:` commits listed in /verif/known_findings.json.',
    }
    json.dump(m, open(os.path.join(VERIF, 'MANIFEST.json'), 'w'), indent=1)
    print('claimed:', [c['property_id'] for c in checks], 'not_applicable:', len(na))


if __name__ == '__main__':
    main()
