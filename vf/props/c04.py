"""C04 - text content is placed verbatim: inline text and wrapped lines."""
from vf.job import Job
from vf.props.common import in_partition
from vf.util import lb_free, ascii_only, fold

META = {
    'rule': 'C04-a: `ex{t}` with every short payload t through the real tokenizer (W inside a template), oracle = reference '
            'un-escaper; C04-b: wrap-text templates with symbolic lines, oracle = reference placement; output observed as a rope '
            'of pieces through output.text.',
    'bounds': {
        'quick': 'inline payload: all Latin-1 strings len<=2 (no line breaks, no $, self-closing per the documented brace/backslash '
                 'rules, not starting with `<`); token-level payload 1..2 chars in 5 placements; payloads of <=5 pieces from 7 (deep nesting, escapes); wrap: 11 templates x 1..2 lines '
                 'of 0..2 chars each over ASCII printable + tab, and single-string text; multi-line text in one element (7 line sets with repeated and blank '
                 'lines, wrap and inline, html/pug/haml/slim): every line present, in order',
        'thorough': 'inline payload len<=3; wrap: 1..3 lines',
    },
    'outside_claim': ['payloads containing `$` (numbering, C02) or line breaks (re-flowed by the formatter, C12/C15)',
                      'payloads starting with `<` (the HTML writer puts block-looking text on its own line even with format off)',
                      '`$#` without an implicit repeater', 'multi-line text beyond the concrete line sets of C04-c',
                      'code points >= 256; wrap lines outside ASCII printable + tab (so that "blank"/"trimmed" is unambiguous)'],
    'stubs': ['Config object is constructed outside the tracer from concrete options',
              'token-level jobs: tokenization of the concrete template runs outside the tracer'],
}


def unescape(t):
    """Reference reading of a `{...}` payload: returns (closes_itself, content)."""
    out = []
    depth = 0
    i = 0
    n = len(t)
    while i < n:
        c = t[i]
        if c == '\\':
            if i + 1 >= n:
                return False, None         # lone trailing backslash would escape the closing brace
            out.append(t[i + 1])
            i += 2
            continue
        if c == '{':
            depth += 1
        elif c == '}':
            if depth == 0:
                return False, None
            depth -= 1
        out.append(c)
        i += 1
    if depth != 0:
        return False, None
    return True, ''.join(out)


def mk_inline_chars(L, lo, hi):
    import emmet
    from vf.pipe import make_config
    user = {'options': {'output.format': False}}

    def pre(t):
        if not in_partition(t, L, lo, hi, limit=256):
            return False
        if not (lb_free(t) & fold(t, lambda o: o != 36)):
            return False
        if L > 0 and t[0] == '<':
            return False
        return True

    def h(t: str):
        if not pre(t):
            return 'skip'
        ok, content = unescape(t)
        if not ok:
            return 'skip'
        out = emmet.expand('ex{' + t + '}', make_config(user))
        return True if out == '<ex>' + content + '</ex>' else 'text_not_verbatim'

    def twin(t: str):
        if not pre(t):
            return 'skip'
        ok, content = unescape(t)
        if not ok:
            return 'skip'
        out = emmet.expand('ex{' + t + '}', make_config(user))
        return True if out == '<ex>' + t + '</ex>' else 'twin'
    wit = [{'t': w} for w in ['', 'a', 'ab', '>+', '{}', '\\}', 'a b', '*a', '[)', '\\\\'] if len(w) == L and
           (not w or lo <= ord(w[0]) < hi)]
    return {'fn': h, 'twin': twin if L >= 2 and lo <= 92 < hi else None, 'witnesses': wit,
            'assumptions': ['payload t: len==%d, code points <256, first in [%d,%d), no line-break characters, no `$`, does '
                            'not start with `<`, closes itself (balanced unescaped braces, no lone trailing backslash)' % (L, lo, hi)],
            'functions': ['abbreviation.tokenizer.tokenize/literal/escaped/bracket (character level)', 'parser.text/get_text',
                          'convert.stringify_value', 'format.html.element', 'format.utils.push_tokens', 'OutputStream.push_string']}


PAYLOAD_PIECES = ['{', '}', 'a', '\\', ' b', '>', '*']


def mk_inline_pieces(K, first):
    """payload = up to K solver-chosen pieces (deep brace nesting, escapes) through the real tokenizer"""
    from vf.pipe import expand_concrete_tokens, make_config
    user = {'options': {'output.format': False}}
    P = len(PAYLOAD_PIECES)

    def harness(wrong):
        def h(k2: int, k3: int, k4: int, k5: int, k6: int):
            ks = [first]
            for k in [k2, k3, k4, k5, k6][:K - 1]:
                if not (-1 <= k < P):
                    return 'skip'
                ks.append(k)
            for k in [k2, k3, k4, k5, k6][K - 1:]:
                if k != -1:
                    return 'skip'
            seen_end = False
            for k in ks:
                if k == -1:
                    seen_end = True
                elif seen_end:
                    return 'skip'
            t = ''.join([PAYLOAD_PIECES[k] for k in ks if k >= 0])
            ok, content = unescape(t)
            if not ok:
                return 'skip'
            out = expand_concrete_tokens('ex{' + t + '}', make_config(user))
            exp = '<ex>' + content + '</ex>' + ('!' if wrong else '')
            return True if out == exp else 'text_not_verbatim'
        return h
    return {'fn': harness(False), 'twin': harness(True), 'witnesses': [dict(k2=-1, k3=-1, k4=-1, k5=-1, k6=-1)] if first in (2, 4, 5, 6) else [],
            'assumptions': ['payload = concatenation of <=%d pieces, piece 0 = %r, others solver-chosen from %r, restricted to payloads that '
                            'close themselves' % (K, PAYLOAD_PIECES[first], PAYLOAD_PIECES)],
            'functions': ['abbreviation.tokenizer.literal (nested braces, escapes)', 'parser.text/get_text']}


PLACEMENTS = {
    'text': ('ex{QZ1}', ['<ex>', 0, '</ex>']),
    'text-then-child': ('ex{QZ1}>ey', ['<ex>', 0, '<ey></ey></ex>']),
    'text-node-sibling': ('ex>{QZ1}+ey', ['<ex>', 0, '<ey></ey></ex>']),
    'text-in-repeat': ('ex*2>ey{QZ1}', ['<ex><ey>', 0, '</ey></ex><ex><ey>', 0, '</ey></ex>']),
    'text-on-self-closing': ('ex>ey{QZ1}/', ['<ex><ey>', 0, '</ey></ex>']),
}


def mk_inline_token(place):
    from vf.pipe import expand_injected, make_config, set_literal, Recorder, rope_eq
    abbr, shape = PLACEMENTS[place]

    def pre(t, l):
        if not (1 <= l <= 2) or len(t) != l:
            return False
        ok = ascii_only(t, 256) & lb_free(t)
        ok = ok & (ord(t[0]) != 60)
        return True if ok else False

    def run(t, wrong):
        rec = Recorder()
        out = expand_injected(abbr, make_config({'options': rec.options({'output.format': False})}),
                              lambda toks: set_literal(toks, 'QZ1', t))
        exp = [t if p == 0 else p for p in shape]
        if wrong:
            exp = exp + ['!']
        r = rope_eq(rec.pieces, exp)
        if r is not True:
            return 'text_misplaced:' + r
        return True if len(out) == sum([len(p) for p in rec.pieces]) else 'returned_string_is_not_the_pushed_text'

    def h(t: str, l: int):
        if not pre(t, l):
            return 'skip'
        return run(t, False)

    def twin(t: str, l: int):
        if not pre(t, l):
            return 'skip'
        return run(t, True)
    return {'fn': h, 'twin': twin, 'witnesses': [{'t': 'a', 'l': 1}, {'t': '>)', 'l': 2}],
            'assumptions': ['template %s; Literal value of the text token is any string of 1..2 code points <256 without '
                            'line-break characters, not starting with `<`' % abbr],
            'functions': ['parser.text/get_text', 'convert.convert_element', 'format.html.element (text before children)']}


# ------------------------------------------------------------------ wrap text
def E(name, kids=(), text=None):
    return (name, list(kids), text)


WRAP = {
    # template -> (per-line fragment builder, prefix, suffix)
    'ex*': ('ex*', lambda l: ['<ex>', l, '</ex>'], '', ''),
    'ex*>ey': ('ex*>ey', lambda l: ['<ex><ey>', l, '</ey></ex>'], '', ''),
    'ex*>ey{q$#}': ('ex*>ey{q$#}', lambda l: ['<ex><ey>q', l, '</ey></ex>'], '', ''),
    'ex>ey*': ('ex>ey*', lambda l: ['<ey>', l, '</ey>'], '<ex>', '</ex>'),
    'ex{a$#b$#}*': ('ex{a$#b$#}*', lambda l: ['<ex>a', l, 'b', l, '</ex>'], '', ''),
    '(ex>ey)*': ('(ex>ey)*', lambda l: ['<ex><ey>', l, '</ey></ex>'], '', ''),
    'ex*>ey+ez': ('ex*>ey+ez', lambda l: ['<ex><ey></ey><ez>', l, '</ez></ex>'], '', ''),
    'ex*>ey[t=$#]': ('ex*>ey[t=$#]', lambda l: ['<ex><ey t="', l, '"></ey></ex>'], '', ''),
    'ew+ex*': ('ew+ex*', lambda l: ['<ex>', l, '</ex>'], '<ew></ew>', ''),
    'ex*>ey{$#}*2': ('ex*>ey{$#}*2', lambda l: ['<ex><ey>', l, '</ey><ey>', l, '</ey></ex>'], '', ''),
    '(ew{$#}+ex>ey*2>ez{$#})*': ('(ew{$#}+ex>ey*2>ez{$#})*', lambda l: ['<ew>', l, '</ew><ex><ey><ez>', l, '</ez></ey><ey><ez>', l, '</ez></ey></ex>'], '', ''),
}
SINGLE = {
    'ex>ey': ['<ex><ey>', 0, '</ey></ex>'],
    'ex+ey': ['<ex></ex><ey>', 0, '</ey>'],
    'ex{q}': ['<ex>q', 0, '</ex>'],
    'ex>ey*2': ['<ex><ey></ey><ey>', 0, '</ey></ex>'],
    'ex>ey/': ['<ex><ey>', 0, '</ey></ex>'],
}


def line_ok(s, lmax):
    if len(s) > lmax:
        return False
    return True if fold(s, lambda o: ((o >= 32) & (o <= 126)) | (o == 9)) else False


def trim(s):
    """reference trim for the restricted alphabet (blank = space or tab)"""
    a, b = 0, len(s)
    while a < b and (s[a] == ' ' or s[a] == '\t'):
        a += 1
    while b > a and (s[b - 1] == ' ' or s[b - 1] == '\t'):
        b -= 1
    return s[a:b]


def mk_wrap(tpl, nlines, lmax):
    import emmet
    from vf.pipe import make_config, Recorder, rope_eq
    abbr, frag, pre, suf = WRAP[tpl]

    def run(lines, wrong):
        exp = [pre]
        for l in lines:
            t = trim(l)
            if len(t) == 0:
                continue
            exp += frag(t)
        exp.append(suf)
        if wrong:
            exp.append('!')
        rec = Recorder()
        cfg = make_config({'options': rec.options({'output.format': False})})
        cfg.user_config['text'] = list(lines)
        out = emmet.expand(abbr, cfg)
        r = rope_eq(rec.pieces, exp)
        if r is not True:
            return 'wrap_text_misplaced:' + r
        return True if len(out) == sum([len(p) for p in rec.pieces]) else 'returned_string_is_not_the_pushed_text'

    def harness(wrong):
        def h(a: str, b: str, c: str):
            ls = [a, b, c]
            for i in range(3):
                if i < nlines:
                    if not line_ok(ls[i], lmax):
                        return 'skip'
                elif len(ls[i]) != 0:
                    return 'skip'
            return run(ls[:nlines], wrong)
        return h
    wit = [dict(a='x', b='y' if nlines > 1 else '', c='z' if nlines > 2 else ''),
           dict(a=' $'[:lmax], b=' ' if nlines > 1 else '', c='')]
    return {'fn': harness(False), 'twin': harness(True), 'witnesses': wit,
            'assumptions': ['template %s with text = list of %d lines; each line 0..%d characters from ASCII printable + tab '
                            '(blank lines included)' % (abbr, nlines, lmax)],
            'functions': ['convert.convert', 'convert.convert_statement (implicit repeater)', 'ConvertState.get_text/clean_text',
                          'convert.insert_text', 'stringify.RepeaterPlaceholder', 'markup.parse (text plumbing)']}


def mk_wrap_single(tpl, lmax):
    import emmet
    from vf.pipe import make_config, Recorder, rope_eq
    shape = SINGLE[tpl]

    def run(s, as_list, wrong):
        t = trim(s)
        exp = [t if p == 0 else p for p in shape]
        if wrong:
            exp.append('!')
        rec = Recorder()
        cfg = make_config({'options': rec.options({'output.format': False})})
        cfg.user_config['text'] = [s] if as_list else s
        out = emmet.expand(tpl, cfg)
        r = rope_eq(rec.pieces, exp)
        if r is not True:
            return 'wrap_text_misplaced:' + r
        return True if len(out) == sum([len(p) for p in rec.pieces]) else 'returned_string_is_not_the_pushed_text'

    def harness(wrong):
        def h(s: str, as_list: bool):
            if not line_ok(s, lmax):
                return 'skip'
            if not fold(s, lambda o: o != 60):
                return 'skip'      # `<`: block-looking text is put on its own line by the HTML writer (see META)
            return run(s, as_list, wrong)
        return h
    return {'fn': harness(False), 'twin': harness(True),
            'witnesses': [{'s': 'ab', 'as_list': False}, {'s': ' *', 'as_list': True}],
            'assumptions': ['template %s (no implicit repeater) with text = one string or a one-line list, 0..%d characters from '
                            'ASCII printable + tab, no `<`' % (tpl, lmax)],
            'functions': ['convert.convert (deepest last element)', 'convert.deepest_node', 'convert.insert_text']}


LINESETS = [['Home', 'About', 'Home'], ['a', '', 'b'], ['x', 'x'], ['a', 'b', '', '', 'a'], ['one'], ['q', 'r', 'q', 'r'], ['m', '', '', 'n']]


def mk_multiline(syntax):
    """Multi-line text (several lines, repeated lines, blank lines inside) in one element, supplied as wrap text without an
    implicit repeater or written inline: every line comes out, in order, none merged and none dropped."""
    import emmet
    from vf.util import untraced, pick_int

    def extract(out):
        lines = out.split('\n')
        if syntax in ('html', 'xml'):
            a = [i for i, l in enumerate(lines) if l.strip() == '<ey>']
            b = [i for i, l in enumerate(lines) if l.strip() == '</ey>']
            if len(a) != 1 or len(b) != 1:
                return None
            return [l.strip() for l in lines[a[0] + 1:b[0]]]
        a = [i for i, l in enumerate(lines) if l.strip() in ('ey', '%ey')]
        if len(a) != 1:
            return None
        got = []
        for l in lines[a[0] + 1:]:
            t = l.strip()
            if syntax == 'haml':
                if not t.endswith('|'):
                    return None
                got.append(t[:-1].strip())
            else:
                if not t.startswith('|'):
                    return None
                got.append(t[1:].strip())
        return got

    def harness(wrong):
        def h(si: int, inline: bool):
            if not (0 <= si < len(LINESETS)):
                return 'skip'
            ls = LINESETS[pick_int(si, 0, len(LINESETS) - 1)]
            if len(ls) < 2 and not wrong:
                pass
            with untraced():
                if inline:
                    if ls[0] == '':
                        return 'skip'        # an inline payload cannot start with a blank line in every syntax alike
                    out = emmet.expand('ex>ey{' + '\n'.join(ls) + '}', {'syntax': syntax})
                else:
                    out = emmet.expand('ex>ey', {'syntax': syntax, 'text': list(ls)})
                got = extract(out)
            exp = [l.strip() for l in ls]
            if not inline:
                # wrap text: leading/trailing blank lines of the whole text are not content
                while exp and exp[0] == '':
                    exp = exp[1:]
            if len(ls) == 1:
                return True if (out.count(ls[0]) == 1 and not wrong) else 'single_line_text_lost'
            if wrong:
                exp = exp + ['!']
            return True if got == exp else 'text_lines_merged_or_dropped'
        return h
    return {'fn': harness(False), 'twin': harness(True), 'witnesses': [dict(si=0, inline=False), dict(si=1, inline=True)],
            'assumptions': ['syntax %s; text lines from %r (solver-chosen) as wrap text for `ex>ey` or inline in `ex>ey{..}`; calls concrete per path '
                            '(outside the tracer)' % (syntax, LINESETS)],
            'functions': ['OutputStream.push_string (line splitting)', 'format.utils.split_by_lines', 'format.indent_format.push_value',
                          'format.html.element', 'convert.ConvertState.get_text']}


def jobs(tier):
    q = tier == 'quick'
    out = []
    n = 2 if q else 3
    parts = [(0, 0, 256), (1, 0, 256)]
    cuts = [0, 33, 37, 43, 48, 58, 65, 92, 93, 97, 123, 128, 192, 256]
    for L in range(2, n + 1):
        parts += [(L, cuts[i], cuts[i + 1]) for i in range(len(cuts) - 1)]
    for (L, lo, hi) in parts:
        out.append(Job('C04-a/inline-chars/len=%d,c0=[%d,%d)' % (L, lo, hi), 'vf.props.c04:mk_inline_chars',
                       dict(L=L, lo=lo, hi=hi), shape='W', bound='Latin-1 len=%d' % L, budget=900 if q else 3000,
                       weight=40 ** L))
    for first in range(len(PAYLOAD_PIECES)):
        if PAYLOAD_PIECES[first] == '}':
            continue          # a payload starting with `}` never closes itself: the partition would be vacuous
        KP = 5 if q else 6
        out.append(Job('C04-a/inline-pieces/K=%d,p0=%d' % (KP, first), 'vf.props.c04:mk_inline_pieces', dict(K=KP, first=first),
                       shape='H', bound='<=%d pieces' % KP, budget=1500 if q else 6000, weight=2000))
    for place in PLACEMENTS:
        out.append(Job('C04-a/inline-token/%s' % place, 'vf.props.c04:mk_inline_token', dict(place=place), shape='H',
                       bound='payload 1..2 chars', budget=600, weight=20))
    lmax = 2
    for tpl in WRAP:
        for nl in ((1, 2) if q else (1, 2, 3)):
            out.append(Job('C04-b/wrap/%s/lines=%d' % (tpl, nl), 'vf.props.c04:mk_wrap', dict(tpl=tpl, nlines=nl, lmax=lmax),
                           shape='H', bound='%d lines x <=%d chars' % (nl, lmax), budget=900 if q else 3000,
                           weight=30 ** nl))
    for syn in ('html', 'pug', 'haml', 'slim'):
        out.append(Job('C04-c/multiline/%s' % syn, 'vf.props.c04:mk_multiline', dict(syntax=syn), shape='H', bound='7 line sets x 2 forms',
                       budget=600, weight=25))
    for tpl in SINGLE:
        out.append(Job('C04-b/wrap-single/%s' % tpl, 'vf.props.c04:mk_wrap_single', dict(tpl=tpl, lmax=3), shape='H',
                       bound='text <=3 chars', budget=600, weight=30))
    return out
