"""Shared pieces for property modules."""
from vf.job import Job

# first-character classes used to partition "all ASCII strings of length L":
# the union of the ranges is [0,128)
ASCII_PARTS = [(0, 33), (33, 37), (37, 43), (43, 48), (48, 58), (58, 65), (65, 92), (92, 97),
               (97, 123), (123, 128)]


def ascii_partitions(n, parts=ASCII_PARTS, split_from=2):
    """Yield (L, lo, hi) partitions covering every ASCII string of length <= n.
    Lengths below `split_from` are one partition each."""
    out = []
    for L in range(0, n + 1):
        if L < split_from or L == 0:
            out.append((L, 0, 128))
        else:
            for lo, hi in parts:
                out.append((L, lo, hi))
    return out


def in_partition(s, L, lo, hi, limit=128):
    """assumption: len(s)==L, all chars < limit, first char in [lo,hi)"""
    if len(s) != L:
        return False
    ok = True
    for c in s:
        ok = ok & (ord(c) < limit)
    if L > 0:
        ok = ok & (lo <= ord(s[0])) & (ord(s[0]) < hi)
    return True if ok else False
