"""C08 - expansion is a pure function of its arguments."""
import copy

from vf.job import Job
from vf.util import untraced

META = {
    'rule': 'Bounded model checking over call histories: k solver-chosen calls from a menu (markup and stylesheet, succeeding and raising, '
            'with wrap text, BEM, scopes, user snippets, differing units), optionally sharing one cache dict and one caller-owned config '
            'dict / Config object, followed by a probe call; the probe result is compared with the result the same call gives in a '
            'pristine interpreter state (computed before any history), caller objects and module-level state are compared with snapshots.',
    'bounds': {
        'quick': 'histories of <=2 calls from a 20-call menu + probe x shared-cache flag x shared-config flag',
        'thorough': 'histories of <=3 calls',
    },
    'stubs': ['the menu calls are concrete and run outside the tracer; the solver decides history, probe and sharing pattern [C]'],
    'outside_claim': ['longer histories, threads', 'calls sharing a cache while using different snippet tables (the cache is documented as '
                      'a cache of the converted table)'],
}


def menu():
    """(abbr, user_config) - built fresh on every use"""
    return [
        ('ul>li*2', {}),
        ('p*', {'text': ['a', '', 'b']}),
        ('a[b="c', {'text': ['w', 'v']}),                                      # raises in the parser, with wrap text present
        ('bad', {'text': 'hello', 'snippets': {'bad': 'a+*'}}),               # raises during snippet resolution
        ('.b>.-e+.-f_m', {'options': {'bem.enabled': True}}),
        ('p10', {'type': 'stylesheet', 'options': {'stylesheet.intUnit': 'pt'}}),
        ('foo', {'type': 'stylesheet', 'snippets': {'foo': 'margin:10'}, 'options': {'stylesheet.intUnit': 'px'}}),
        ('foo', {'type': 'stylesheet', 'snippets': {'foo': 'margin:10'}, 'options': {'stylesheet.intUnit': 'q'}}),
        ('m', {'type': 'stylesheet', 'context': {'name': '@@section'}}),
        ('d', {'type': 'stylesheet', 'context': {'name': '@@property'}}),
        ('pos:r+lh1.5e', {'type': 'stylesheet'}),
        ('x{y}', {'text': 'wrapped', 'options': {'comment.enabled': True, 'bem.enabled': True}}),
        ('ul>li*', {'text': []}),                                             # empty (but present) wrap text
        ('img', {'text': ''}),
        ('zom+lh', {'type': 'stylesheet', 'options': {'stylesheet.unitless': []}}),
        ('zom+lh', {'type': 'stylesheet'}),
        ('tm+!!!', {'syntax': 'xsl'}),                                        # syntax-specific snippet tables ...
        ('tm+!!!', {}),                                                       # ... must not leak into the plain markup table
        ('bgpz+bgp:fr', {'type': 'stylesheet', 'snippets': {'bgpz': 'background-position-z:near|far'}}),
        ('bgp:fr+bgp:n', {'type': 'stylesheet'}),
    ]


STYLESHEET_SAME_TABLE = {5: 'builtin', 8: 'builtin', 9: 'builtin', 10: 'builtin', 6: 'foo', 7: 'foo', 14: 'builtin', 15: 'builtin',
                         18: 'bgpz', 19: 'builtin'}


def module_state():
    """sizes of every mutable module-level container and function default in emmet.* (taken outside the tracer)"""
    import sys
    import types
    with untraced():
        snap = {}
        for name, mod in list(sys.modules.items()):
            if not (name == 'emmet' or name.startswith('emmet.')) or mod is None:
                continue
            for attr, val in list(vars(mod).items()):
                if isinstance(val, (list, dict, set)):
                    snap['%s.%s' % (name, attr)] = (len(val), hash(tuple(sorted(map(repr, val)))) if len(val) < 60 else len(val))
                elif isinstance(val, types.FunctionType) and val.__defaults__:
                    for i, d in enumerate(val.__defaults__):
                        if isinstance(d, (list, dict, set)):
                            snap['%s.%s#%d' % (name, attr, i)] = (len(d), repr(d)[:200])
        return snap


def call(abbr, user):
    import emmet
    from emmet.scanner import ScannerException
    from emmet.token_scanner import TokenScannerException
    # every call of the menu is concrete: it runs outside the tracer (plain CPython on the real code); what the solver
    # decides is WHICH history and sharing pattern is executed
    with untraced():
        try:
            return ('ok', emmet.expand(abbr, user))
        except (ScannerException, TokenScannerException) as e:
            return ('parse-error', type(e).__name__)


def pristine_results():
    """Result of every menu call in a process that has made NO expand() call before it (fork per call after the imports).
    Computing the references one after the other in one process would let a leak between calls poison the reference itself."""
    import json
    import os
    import emmet  # noqa: F401  (imported before forking)
    M = menu()
    out = []
    for i in range(len(M)):
        r, w = os.pipe()
        pid = os.fork()
        if pid == 0:
            try:
                os.close(r)
                res = call(M[i][0], copy.deepcopy(M[i][1]))
                os.write(w, json.dumps(list(res)).encode())
            finally:
                os._exit(0)
        os.close(w)
        data = b''
        while True:
            chunk = os.read(r, 65536)
            if not chunk:
                break
            data += chunk
        os.close(r)
        os.waitpid(pid, 0)
        out.append(tuple(json.loads(data.decode())))
    return out


def mk_history(K, first):
    import emmet
    from emmet.config import Config
    M = menu()
    N = len(M)
    reference = pristine_results()     # each menu call in its own freshly forked process: no earlier call of any kind

    def harness(wrong):
        def h(h2: int, h3: int, probe: int, share_cache: bool, share_cfg: bool, as_config: bool):
            hist = [first]
            for x in [h2, h3][:K - 1]:
                if not (-1 <= x < N):
                    return 'skip'
                if x >= 0:
                    hist.append(x)
            for x in [h2, h3][K - 1:]:
                if x != -1:
                    return 'skip'
            if h2 == -1 and h3 != -1:
                return 'skip'
            if not (0 <= probe < N):
                return 'skip'
            before = module_state()
            cache = {}
            cache_table = [None]
            shared_cfg = {}
            fresh = menu()

            def prepare(i):
                abbr, user = fresh[i][0], copy.deepcopy(fresh[i][1])
                if share_cache and user.get('type') == 'stylesheet':
                    tab = STYLESHEET_SAME_TABLE[i]
                    if cache_table[0] in (None, tab):        # one cache per snippet table (see outside_claim)
                        cache_table[0] = tab
                        user['cache'] = cache
                return abbr, user
            kept = []
            for i in hist:
                abbr, user = prepare(i)
                snap = copy.deepcopy({k: v for k, v in user.items() if k != 'cache'})
                with untraced():
                    arg = Config(user) if as_config else user
                call(abbr, arg)
                kept.append((i, user, snap))
            # probe after the history
            abbr, user = prepare(probe)
            snap = copy.deepcopy({k: v for k, v in user.items() if k != 'cache'})
            with untraced():
                arg = Config(user) if as_config else user
            got = call(abbr, arg)
            exp = reference[probe]
            if wrong:
                exp = (exp[0], exp[1] + ' ')
            if got != exp:
                return 'result_depends_on_history'
            kept.append((probe, user, snap))
            # a caller-owned configuration keeps producing the same result (also after calls that raised)
            if share_cfg:
                for (i, user_i, _s) in kept:
                    with untraced():
                        arg = Config(user_i) if as_config else user_i
                    again = call(fresh[i][0], arg)
                    if again != reference[i]:
                        return 'caller_config_gives_other_result_after_use'
            for (i, user_i, snap_i) in kept:
                now = {k: v for k, v in user_i.items() if k != 'cache'}
                if now != snap_i:
                    return 'caller_config_modified'
            if module_state() != before:
                return 'module_state_kept_per_call_data'
            return True
        return h
    wit = [dict(h2=-1, h3=-1, probe=0, share_cache=False, share_cfg=False, as_config=False),
           dict(h2=5 if K > 1 else -1, h3=-1, probe=6, share_cache=True, share_cfg=True, as_config=False),
           dict(h2=3 if K > 1 else -1, h3=-1, probe=1, share_cache=False, share_cfg=True, as_config=True)]
    return {'fn': harness(False), 'twin': harness(True), 'witnesses': wit,
            'assumptions': ['history: call %d of the menu, then <=%d more solver-chosen menu calls, then a probe call; menu = %r; stylesheet calls '
                            'may share one cache dict (one per snippet table); every caller config is re-used afterwards when share_cfg; '
                            'configs passed as dict or as Config object' % (first, K - 1, [(a, u) for (a, u) in M])],
            'functions': ['emmet.expand', 'markup.parse (text removal/restoration, BEM lookup reset)', 'stylesheet.parse (cache), resolve_as_property, '
                          'resolve_numeric_value', 'markup.addon.bem.*', 'config.Config/merged_data']}


def jobs(tier):
    q = tier == 'quick'
    K = 2 if q else 3
    out = []
    for first in range(len(menu())):
        out.append(Job('C08-a/history/K=%d,first=%02d' % (K, first), 'vf.props.c08:mk_history', dict(K=K, first=first), shape='H',
                       bound='<=%d calls + probe' % K, budget=3000 if q else 12000, weight=1000))
    return out
