"""C15 - HAML, Pug and Slim output has one line per element at its depth."""
from vf.job import Job
from vf.props import c01
from vf.util import fold, lb_free, ascii_only

META = {
    'rule': 'C15-a: the operator skeletons of C01 (solver-chosen selectors, symbolic repeat counts) rendered by the indent writers, '
            'oracle = reference line writer applied to the reference tree of C01 (so "same tree as HTML" holds by construction); '
            'C15-b: decorated templates (id/class/attributes/text, multi-line text) with a symbolic indent string and payload.',
    'bounds': {
        'quick': 'skeletons of <=5 items x haml/pug/slim, repeat counts 1..3; chains of 6 elements over every sequence of {>, +, ^, ^^, ^^^} with '
                 'self-closed leaves; 20 decorated templates x 3 syntaxes, indent = any '
                 'string of 1..2 spaces/tabs, payload 1..2 chars',
        'thorough': 'skeletons of <=6 items; indent 0..3 chars',
    },
    'outside_claim': ['bare text nodes `{..}` without element (they are not elements; the writer glues them to the previous line)',
                      'class before id in the abbreviation (the writer keeps the written order; the property states id first)',
                      'payloads with line breaks other than the concrete multi-line templates', 'a child operator applied to a group'],
    'stubs': ['tokenization of the concrete template string runs outside the tracer (same real function)',
              'Config object is constructed outside the tracer from concrete options'],
}

SYN = {
    'haml': dict(before='%', open='(', close=')', glue=' ', boolval='=true', selfclose='/', tbefore='', tafter=' |'),
    'pug': dict(before='', open='(', close=')', glue=', ', boolval='', selfclose='', tbefore='| ', tafter=''),
    'slim': dict(before='', open=' ', close='', glue=' ', boolval='', selfclose='/', tbefore='| ', tafter=''),
}


def render_tree(nodes, syntax, depth, lines):
    """reference line writer for the C01 reference tree (plain named elements)"""
    S = SYN[syntax]
    for n in nodes:
        if isinstance(n, c01.Group):
            for _ in range(n.rep or 1):
                render_tree(n.children, syntax, depth, lines)
        else:
            for _ in range(n.rep or 1):
                ln = '\t' * depth + S['before'] + n.name
                if n.close and not n.children:
                    ln += S['selfclose']
                elif not n.children:
                    ln += ' '
                lines.append(ln)
                render_tree(n.children, syntax, depth + 1, lines)


def mk_structure(K, syntax, first):
    from vf.pipe import expand_injected, make_config, set_repeat
    user = {'syntax': syntax}

    def run(kinds, r1, r2, wrong=False):
        items, parts = [], []
        n = 0
        uses1 = uses2 = False
        for k in kinds:
            if k == c01.END:
                break
            if k in (c01.EL, c01.ELR, c01.ELC):
                n += 1
                name = 'x%d' % n
                items.append(('el', name, r1 if k == c01.ELR else None, k == c01.ELC))
                parts.append(name + ('*901' if k == c01.ELR else '/' if k == c01.ELC else ''))
                uses1 = uses1 or k == c01.ELR
            elif k == c01.CH:
                items.append('>'); parts.append('>')
            elif k == c01.SIB:
                items.append('+'); parts.append('+')
            elif k == c01.UP:
                items.append('^'); parts.append('^')
            elif k == c01.GO:
                items.append('('); parts.append('(')
            elif k == c01.GC:
                items.append((')', None)); parts.append(')')
            elif k == c01.GCR:
                items.append((')', r2)); parts.append(')*902')
                uses2 = True
        abbr = ''.join(parts)
        try:
            tree = c01.ref_build(items)
        except c01.Skip:
            return 'skip'
        lines = []
        render_tree(tree, syntax, 0, lines)
        expected = '\n'.join(lines)
        if wrong:
            expected = expected + '\n'

        def edit(toks):
            if uses1:
                set_repeat(toks, 901, r1)
            if uses2:
                set_repeat(toks, 902, r2)
        out = expand_injected(abbr, make_config(user), edit)
        return True if out == expected else 'lines_differ'

    def harness(wrong):
        def h(k1: int, k2: int, k3: int, k4: int, k5: int, r1: int, r2: int):
            ks = [first]
            for k in [k1, k2, k3, k4, k5][:K - 1]:
                if not (0 <= k < c01.NK):
                    return 'skip'
                ks.append(k)
                if not c01.wellformed_step(ks):
                    return 'skip'
            for k in [k1, k2, k3, k4, k5][K - 1:]:
                if k != c01.END:
                    return 'skip'
            if not c01.complete(ks):
                return 'skip'
            if not (1 <= r1 <= 3 and 1 <= r2 <= 3):
                return 'skip'
            if c01.ELR not in ks and r1 != 1:
                return 'skip'
            if c01.GCR not in ks and r2 != 1:
                return 'skip'
            return run(ks, r1, r2, wrong)
        return h
    E = c01.END
    seqs = {c01.EL: [[c01.EL, c01.CH, c01.EL, c01.SIB], [c01.EL, c01.SIB, c01.EL, E]], c01.ELR: [[c01.ELR, c01.CH, c01.EL, E]],
            c01.ELC: [[c01.ELC, c01.SIB, c01.EL, E]], c01.GO: [[c01.GO, c01.EL, c01.GCR, E]]}[first]
    wit = []
    for ks in seqs:
        ks = (ks + [E] * 6)[:K]
        if ks[-1] in (c01.SIB, c01.CH):
            ks[-1] = E
        if not (c01.wellformed_step(ks) and c01.complete(ks)):
            continue
        w = {'k%d' % i: (ks[i] if i < K else E) for i in range(1, 6)}
        w.update(r1=2 if c01.ELR in ks else 1, r2=3 if c01.GCR in ks else 1)
        wit.append(w)
    return {'fn': harness(False), 'twin': harness(True), 'witnesses': wit,
            'assumptions': ['syntax %s; item 0 is kind %d, items 1..%d solver-chosen; elements named x<i>; repeat counts 1..3; '
                            'default indent (tab) and newline' % (syntax, first, K - 1)],
            'functions': ['format.indent_format.element/should_format/push_value', 'format.walk.walk', 'format.haml/pug/slim',
                          'OutputStream.push_newline/push_indent']}


def mk_chain(S, syntax, first_op):
    """S elements joined by S-1 solver-chosen operators from {>, +, ^, ^^, ^^^} (deeper than the K-item skeletons); every second
    leaf is self-closed so that the level bookkeeping around self-closing lines is exercised below the top level"""
    from vf.pipe import expand_injected, make_config
    user = {'syntax': syntax}
    NOP = 5

    def run(ops, wrong=False):
        items, parts = [], []
        for i in range(S):
            name = 'x%d' % (i + 1)
            leaf = i == S - 1 or ops[i] != 0
            close = leaf and i % 2 == 1
            items.append(('el', name, None, close))
            parts.append(name + ('/' if close else ''))
            if i < S - 1:
                o = ops[i]
                if o == 0:
                    items.append('>'); parts.append('>')
                elif o == 1:
                    items.append('+'); parts.append('+')
                else:
                    items += ['^'] * (o - 1); parts.append('^' * (o - 1))
        lines = []
        render_tree(c01.ref_build(items), syntax, 0, lines)
        expected = '\n'.join(lines) + ('\n' if wrong else '')
        out = expand_injected(''.join(parts), make_config(user), lambda toks: None)
        return True if out == expected else 'lines_differ'

    def harness(wrong):
        def h(o2: int, o3: int, o4: int, o5: int, o6: int):
            ops = [first_op]
            rest = [o2, o3, o4, o5, o6]
            for o in rest[:S - 2]:
                if not (0 <= o < NOP):
                    return 'skip'
                ops.append(o)
            for o in rest[S - 2:]:
                if o != 0:
                    return 'skip'
            return run(ops, wrong)
        return h
    z = dict(o2=0, o3=0, o4=0, o5=0, o6=0)
    return {'fn': harness(False), 'twin': harness(True), 'witnesses': [z, dict(z, o2=1, o3=2)],
            'assumptions': ['syntax %s; %d elements joined by operators chosen by the solver from {>, +, ^, ^^, ^^^}, first operator kind %d; '
                            'every second leaf is written self-closed' % (syntax, S, first_op)],
            'functions': ['format.indent_format.element (level bookkeeping)', 'abbreviation.parser.statements']}


# ------------------------------------------------------------------ decorated templates
# node: (name, id, [classes], [(attr, value|None|'BOOL')], text|[lines]|None, [children], selfclose)
def N(name, id=None, cls=(), attrs=(), text=None, kids=(), sc=False):
    return (name, id, list(cls), list(attrs), text, list(kids), sc)


DECO = [
    [N('ex', 'i', ['c'])],
    [N('div', 'i', [], [], None, [N('ex', None, ['c', 'd'])])],
    [N('div', None, ['c'], [('t', 'QZ1')])],
    [N('div', None, [], [('t', 'QZ1')])],
    [N('ex', None, [], [('t', 'QZ1'), ('u', None)], None, [N('ey')])],
    [N('ex', None, [], [('d', 'BOOL'), ('t', 'v')])],
    [N('ex', None, [], [], 'QZ1')],
    [N('ex', None, [], [], 'QZ1', [N('ey', None, ['c'])])],
    [N('ex', None, [], [], ['ab', 'c'], [N('ey')])],
    [N('ul', 'i', [], [], None, [N('li', None, ['c'], [], 'QZ1'), N('li', None, ['d'])])],
    [N('ex', None, [], [], None, [N('ey', None, [], [], ['a', 'bcd', 'ef'])])],
    [N('ex', 'i', ['c'], [('t', 'QZ1')], 'w', [N('ey', None, [], [], None, [N('ez')])]), N('ew')],
    [N('ex', None, [], [], None, [N('br', None, [], [], None, [], True), N('ey', 'j')])],
    [N('div', 'i', ['c'], [], 'QZ1')],
    [N('ex', None, [], [], ['a', '', 'b'])],
    [N('ex', None, [], [], None, [N('ey', None, [], [], ['ab', '', '', 'c'], [N('ez')])])],
    # three and more classes, one-letter names in the middle
    [N('ex', None, ['a', 'b', 'c'])],
    [N('div', 'i', ['col', 's', 'm', 'wide'], [], None, [N('ey', None, ['x', 'y', 'z', 'w'], [('t', 'QZ1')])])],
    # more than eight classes; expression-valued attributes
    [N('ex', None, ['c%d' % i for i in range(11)], [], None, [N('div', None, ['d%d' % i for i in range(12)])])],
    [N('ex', None, [], [('t', '{x.y}'), ('u', 'QZ1')], None, [N('ey', None, [], [('v', '{z}')])])],
]


def deco_abbr(nodes):
    parts = []
    for (name, id_, cls, attrs, text, kids, sc) in nodes:
        s = name
        if id_:
            s += '#' + id_
        for c in cls:
            s += '.' + c
        if attrs:
            s += '[' + ' '.join([a + '.' if v == 'BOOL' else a if v is None else a + '=' + v for (a, v) in attrs]) + ']'
        if text is not None:
            s += '{' + ('\n'.join(text) if isinstance(text, list) else text) + '}'
        if sc:
            s += '/'
        if kids:
            s = s + '>' + deco_abbr(kids)
            if len(nodes) > 1:
                s = '(' + s + ')'
        parts.append(s)
    return '+'.join(parts)


def deco_expect(nodes, syntax, depth, ind, payload, out, first):
    """appends rope pieces for the expected output"""
    S = SYN[syntax]
    for (name, id_, cls, attrs, text, kids, sc) in nodes:
        if not first[0]:
            out.append('\n')
            for _ in range(depth):
                out.append(ind)
        first[0] = False
        head = ''
        if not (name == 'div' and (id_ or cls)):
            head += S['before'] + name
        if id_:
            head += '#' + id_
        for c in cls:
            head += '.' + c
        out.append(head)
        if attrs:
            out.append(S['open'])
            for i, (a, v) in enumerate(attrs):
                if i:
                    out.append(S['glue'])
                if v == 'BOOL':
                    out.append(a + S['boolval'])
                elif v is None:
                    out.append(a + '=""')
                elif v[:1] == '{' and v[-1:] == '}':
                    out.append(a + '=' + v)                 # expression value: braces instead of quotes
                else:
                    out.append(a + '="')
                    out.append(payload if v == 'QZ1' else v)
                    out.append('"')
            out.append(S['close'])
        if sc and text is None and not kids:
            out.append(S['selfclose'])
        elif isinstance(text, list):
            width = max([len(t) for t in text])
            for t in text:
                out.append('\n')
                for _ in range(depth + 1):
                    out.append(ind)
                out.append(S['tbefore'] + t)
                if S['tafter']:
                    out.append(' ' * (width - len(t)) + S['tafter'])
        elif text is not None:
            out.append(' ')
            out.append(payload if text == 'QZ1' else text)
        elif not kids:
            out.append(' ')
        deco_expect(kids, syntax, depth + 1, ind, payload, out, first)


def mk_decorated(ti, syntax, imax):
    from vf.pipe import expand_injected, make_config, set_literal, Recorder, rope_eq
    tpl = DECO[ti]
    abbr = deco_abbr(tpl)
    uses_t = 'QZ1' in abbr

    def harness(wrong):
        def h(ind: str, il: int, t: str, l: int):
            if not (1 <= il <= imax) or len(ind) != il or not fold(ind, lambda o: (o == 32) | (o == 9)):
                return 'skip'
            if uses_t:
                if not (1 <= l <= 2) or len(t) != l:
                    return 'skip'
                if not (ascii_only(t, 256) & lb_free(t) & fold(t, lambda o: (o != 36) & (o != 92) & (o != 123) & (o != 125))):
                    return 'skip'
            elif l != 0 or len(t) != 0:
                return 'skip'
            rec = Recorder()
            out = expand_injected(abbr, make_config({'syntax': syntax, 'options': rec.options({'output.indent': ind})}),
                                  (lambda toks: set_literal(toks, 'QZ1', t)) if uses_t else None)
            exp = []
            deco_expect(tpl, syntax, 0, ind, t, exp, [True])
            if wrong:
                exp.append(' ')
            r = rope_eq(rec.pieces, exp)
            if r is not True:
                return 'lines_differ:' + r
            return True if len(out) == sum([len(p) for p in rec.pieces]) else 'returned_string_is_not_the_pushed_text'
        return h
    w = dict(ind='  '[:min(2, imax)], il=min(2, imax), t='x' if uses_t else '', l=1 if uses_t else 0)
    return {'fn': harness(False), 'twin': harness(True), 'witnesses': [w, dict(w, ind='\t', il=1)],
            'assumptions': ['template %r, syntax %s; output.indent = any string of 1..%d spaces/tabs; payload 1..2 code points <256 '
                            'without line breaks, `$`, backslash, braces' % (abbr, syntax, imax)],
            'functions': ['format.indent_format.element/collect_attributes/push_primary_attributes/push_secondary_attributes/'
                          'push_value', 'format.utils.split_by_lines', 'format.haml/pug/slim']}


# element lines in the presence of bare text nodes: where the text itself lands is outside the claim, the ELEMENT lines are not
TEXTY = [('ex>ey+{t}+ez', [('ex', 0), ('ey', 1), ('ez', 1)]),
         ('ul>li>{x}^li.c', [('ul', 0), ('li', 1), ('li.c', 1)]),
         ('ex>ey>{x}+ez^ew', [('ex', 0), ('ey', 1), ('ez', 2), ('ew', 1)]),
         ('ex>{t}+ey>ez', [('ex', 0), ('ey', 1), ('ez', 2)]),
         ('ex>(ey>{t})*901+ez', None)]


def mk_texty(ti, syntax):
    from vf.pipe import expand_injected, make_config, set_repeat
    abbr, heads = TEXTY[ti]
    S = SYN[syntax]

    def harness(wrong):
        def h(r: int, two: bool):
            if '*901' in abbr:
                if not (1 <= r <= 3):
                    return 'skip'
                hs = [('ex', 0)] + [('ey', 1)] * r + [('ez', 1)]
            else:
                if r != 1:
                    return 'skip'
                hs = heads
            ind = '  ' if two else '\t'
            out = expand_injected(abbr, make_config({'syntax': syntax, 'options': {'output.indent': ind}}),
                                  (lambda toks: set_repeat(toks, 901, r)) if '*901' in abbr else None)
            lines = out.split('\n')
            if len(lines) != len(hs):
                return 'not_one_line_per_element'
            for k, (head, depth) in enumerate(hs):
                pre = ind * (depth + (1 if wrong and depth else 0))
                rest = lines[k][len(pre):]
                if lines[k][:len(pre)] != pre or rest[:1] == ' ' or rest[:1] == '\t':
                    return 'element_line_at_wrong_indent:' + head
                if not rest.startswith(S['before'] + head):
                    return 'element_line_out_of_order:' + head
            return True
        return h
    return {'fn': harness(False), 'twin': harness(True), 'witnesses': [dict(r=2 if '*901' in abbr else 1, two=True)],
            'assumptions': ['template %s, syntax %s; indent two spaces or a tab; repeat 1..3; only the lines of named elements are '
                            'checked (their indentation and order)' % (abbr, syntax)],
            'functions': ['format.indent_format.element (level bookkeeping around text-only nodes)']}


def jobs(tier):
    q = tier == 'quick'
    K = 5 if q else 6
    out = []
    for syn in ('haml', 'pug', 'slim'):
        for first in (c01.EL, c01.ELR, c01.ELC, c01.GO):
            out.append(Job('C15-a/structure/K=%d,%s,first=%d' % (K, syn, first), 'vf.props.c15:mk_structure',
                           dict(K=K, syntax=syn, first=first), shape='H', bound='<=%d items' % K, budget=900 if q else 3000,
                           weight=300))
        for fo in range(5):
            out.append(Job('C15-d/chain/%s/S=%d,op1=%d' % (syn, 6 if q else 7, fo), 'vf.props.c15:mk_chain',
                           dict(S=6 if q else 7, syntax=syn, first_op=fo), shape='H', bound='%d elements, every operator sequence' % (6 if q else 7),
                           budget=900 if q else 3000, weight=250))
        for ti in range(len(TEXTY)):
            out.append(Job('C15-c/texty/%s/t%02d' % (syn, ti), 'vf.props.c15:mk_texty', dict(ti=ti, syntax=syn), shape='H',
                           bound='template', budget=600, weight=20))
        for ti in range(len(DECO)):
            out.append(Job('C15-b/decorated/%s/t%02d' % (syn, ti), 'vf.props.c15:mk_decorated',
                           dict(ti=ti, syntax=syn, imax=2 if q else 3), shape='H', bound='template', budget=900, weight=60))
    return out
