"""C02 - repeaters make exactly N copies and number them as documented."""
from vf.job import Job

META = {
    'rule': 'C02-a: unit harness on stringify.RepeaterNumber with symbolic size/base/count/value/reverse [S]; '
            'C02-b: W-harness on the tokenizer for numbering/repeater tokens; C02-c: templates through the real '
            'expand() with symbolic repeat counts, numbering width/base/direction and maxRepeat; oracle = reference '
            'unroller written from the property text, compared as strings.',
    'bounds': {
        'quick': 'kernel: size 1..6, base 0..10^5, count 1..10^5, 0<=value<count, both directions, stack depth 0..2; '
                 'recognition: all strings len<=3 over $ @ - ^ * 0-9 a; pipeline: 18 templates, N,M in 1..3, numbering '
                 'width 1..3, base 0..20, both directions; maxRepeat 1..7 or none on 13 templates',
        'thorough': 'recognition len<=4; pipeline N,M in 1..4, width 1..4, base 0..1000, maxRepeat 1..12',
    },
    'outside_claim': ['N > 4 in the pipeline (the kernel covers counts to 10^5)', '`@^` parent numbering (not in the '
                      'property)', 'reverse numbering combined with a truncating maxRepeat (the property does not say '
                      'which copy counts as last)', 'implicit repeater (C04)'],
    'stubs': ['tokenization of the concrete template string runs outside the tracer (same real function)',
              'Config object is constructed outside the tracer from concrete options'],
}


def counter_text(size, base, reverse, i, count):
    v = base + count - 1 - i if reverse else base + i
    t = str(v)
    return '0' * max(0, size - len(t)) + t


# ------------------------------------------------------------------ C02-a kernel
def mk_kernel(depth):
    from emmet.abbreviation.stringify import RepeaterNumber
    from emmet.abbreviation.convert import ConvertState
    from emmet.abbreviation.tokenizer import tokens as T

    def run(size, base, count, value, reverse, ocount, ovalue, wrong=False):
        st = ConvertState()
        if depth >= 2:
            st.repeaters.append(T.Repeater(ocount, ovalue))
        if depth >= 1:
            st.repeaters.append(T.Repeater(count, value))
        got = RepeaterNumber(T.RepeaterNumber(size, reverse, base, 0), st)
        if depth == 0:
            exp = '0' * (size - 1) + '1'
        else:
            exp = counter_text(size, base, reverse, value + (1 if wrong else 0), count)
        return True if got == exp else 'counter_text_differs'

    def harness(wrong):
        def h(size: int, base: int, count: int, value: int, reverse: bool, ocount: int, ovalue: int):
            if not (1 <= size <= 6 and 0 <= base <= 100000 and 1 <= count <= 100000 and 0 <= value < count):
                return 'skip'
            if depth < 2:
                if ocount != 1 or ovalue != 0:
                    return 'skip'
            elif not (1 <= ocount <= 100000 and 0 <= ovalue < ocount):
                return 'skip'
            if depth == 0 and (count != 1 or value != 0):
                return 'skip'
            return run(size, base, count, value, reverse, ocount, ovalue, wrong)
        return h
    wit = [dict(size=1, base=1, count=1, value=0, reverse=False, ocount=1, ovalue=0),
           dict(size=3, base=1, count=1, value=0, reverse=True, ocount=1, ovalue=0)]
    if depth >= 1:
        wit += [dict(size=3, base=5, count=10, value=9, reverse=False, ocount=1, ovalue=0),
                dict(size=2, base=0, count=3, value=0, reverse=True, ocount=1, ovalue=0)]
    return {'fn': harness(False), 'twin': harness(True) if depth else None, 'witnesses': wit,
            'assumptions': ['repeater stack depth %d; 1<=size<=6, 0<=base<=10^5, 1<=count<=10^5, 0<=value<count' % depth],
            'functions': ['emmet.abbreviation.stringify.RepeaterNumber']}


# ------------------------------------------------------------------ C02-b recognition
def mk_recognise(L):
    from emmet.abbreviation import tokenize
    from emmet.scanner import ScannerException

    def alpha_ok(s):
        return all([c == '$' or c == '@' or c == '-' or c == '^' or c == '*' or '0' <= c <= '9' or c == 'a'
                    for c in s])

    def digits(s, i):
        j = i
        while j < len(s) and '0' <= s[j] <= '9':
            j += 1
        return j

    def h(s: str):
        if len(s) != L or not alpha_ok(s):
            return 'skip'
        if s[0] != '$' and s[0] != '*':
            return 'skip'
        err = None
        try:
            toks = tokenize(s)
        except ScannerException as e:
            err = e.pos
        if s[0] == '*':
            j = digits(s, 1)
            if err is not None:
                return True if err >= j else 'error_inside_repeater'
            t = toks[0]
            if t.type != 'Repeater' or t.start != 0 or t.end != j:
                return 'repeater_span'
            if j == 1:
                return True if (t.implicit and t.count == 1) else 'implicit_repeater_fields'
            return True if (not t.implicit and t.count == int(s[1:j])) else 'repeater_count'
        # numbering (a `$#` placeholder is a different token)
        k = 0
        while k < len(s) and s[k] == '$':
            k += 1
        if k == 1 and len(s) > 1 and s[1] == '#':
            return 'skip'
        size, reverse, base, parent, end = k, False, 1, 0, k
        if k < len(s) and s[k] == '@':
            i = k + 1
            while i < len(s) and s[i] == '^':
                parent += 1
                i += 1
            if i < len(s) and s[i] == '-':
                reverse = True
                i += 1
            j = digits(s, i)
            if j > i:
                base = int(s[i:j])
            end = j
        if err is not None:
            return True if err >= end else 'error_inside_numbering'
        t = toks[0]
        if t.type != 'RepeaterNumber' or t.start != 0 or t.end != end:
            return 'numbering_span'
        if t.size != size or bool(t.reverse) != reverse or t.base != base or t.parent != parent:
            return 'numbering_fields'
        return True

    def twin(s: str):
        if len(s) != L or not alpha_ok(s) or (s[0] != '$' and s[0] != '*'):
            return 'skip'
        try:
            toks = tokenize(s)
        except ScannerException:
            return True
        return 'twin' if toks[0].end == len(s) else True
    wit = [{'s': w} for w in ['$', '$$', '*3', '$@3', '$@-', '$@-2', '*', '$$@5', '$@^2', '*12a', '$@-10'] if len(w) == L]
    return {'fn': h, 'twin': twin, 'witnesses': wit,
            'assumptions': ['len(s)==%d, characters from $ @ - ^ * 0-9 a, first character $ or *' % L],
            'functions': ['emmet.abbreviation.tokenizer.repeater_number', 'repeater', 'tokenize']}


def mk_digits(form):
    """numbering / repeater token whose digits are a symbolic string (1..3 decimal digits)"""
    from emmet.abbreviation import tokenize
    import emmet
    from vf.pipe import make_config

    def h(k: int, d: str):
        if not (1 <= k <= 3) or not (1 <= len(d) <= 3):
            return 'skip'
        ok = True
        for c in d:
            ok = ok & (ord(c) >= 48) & (ord(c) <= 57)
        if not ok:
            return 'skip'
        n = int(d)
        if form == 'repeat':
            if k != 1:
                return 'skip'
            toks = tokenize('ea*' + d)
            t = toks[-1]
            return True if (t.type == 'Repeater' and t.count == n and not t.implicit and t.end == 3 + len(d)) \
                else 'repeater_count_differs_from_digits'
        src = 'ea' + '$' * k + '@' + ('-' if form == 'reverse' else '') + d
        toks = tokenize(src)
        t = toks[-1]
        if t.type != 'RepeaterNumber' or t.end != len(src) or t.start != 2:
            return 'numbering_span'
        if t.size != k or bool(t.reverse) != (form == 'reverse') or t.base != n or t.parent != 0:
            return 'numbering_fields_differ_from_digits'
        return True

    def twin(k: int, d: str):
        r = h(k, d)
        return r if r == 'skip' else 'twin'
    return {'fn': h, 'twin': twin, 'witnesses': [{'k': 1, 'd': '3'}, {'k': 2 if form != 'repeat' else 1, 'd': '10'}],
            'assumptions': ['form %s: `ea` + 1..3 `$` + `@` (+ `-`) + 1..3 symbolic decimal digits, or `ea*` + digits' % form],
            'functions': ['emmet.abbreviation.tokenizer.repeater_number', 'repeater', 'stringify.RepeaterNumber']}


# ------------------------------------------------------------------ C02-c pipeline
# template language: ('el', name, rep, [children], attr, text) | ('grp', rep, [children])
# `$` inside name/attr/text marks a counter; rep is None | 'N' | 'M'
def E(name, rep=None, kids=(), attr=None, text=None):
    return ('el', name, rep, list(kids), attr, text)


def G(rep, kids):
    return ('grp', rep, list(kids))


TEMPLATES = [
    [E('ea$', 'N')],
    [E('ea', 'N', [E('eb$', 'M')])],
    [E('ea$', 'N', [E('eb$')])],
    [G('N', [E('ea$'), E('eb$')])],
    [G('N', [E('ea', None, [E('eb$', 'M')])])],
    [E('ea', None, [G('N', [E('eb$'), E('ec', None, [], 't=$')])])],
    [E('ea$', 'N'), E('eb$', 'M')],
    [G('N', [E('ea$', 'M')])],
    [E('ea', 'N', [E('eb', None, [E('ec', None, [], None, 'z$')])])],
    [E('ea', 'N', [], 't=v$')],
    [E('ex', None, [E('ea$')])],
    [E('ea$', 'N', [E('eb$', 'M', [E('ec$')])])],
    [E('ea', 'N', [E('eb', 'M')]), E('ec', 'N')],
    [G('N', [E('ea', 'M'), E('eb')]), E('ec', 'M')],
    # counters that are resolved AFTER a repeater has finished (or was cut by maxRepeat)
    [E('ea', 'N'), E('eb$')],
    [E('ea', 'N', [E('eb', 'M')], 't=v$')],
    [E('ex', None, [E('ea', 'N')]), E('eb', None, [], None, 'z$')],
    [G('N', [E('ea')]), E('eb$', 'M'), E('ec$')],
]


def to_abbr(nodes):
    parts = []
    for n in nodes:
        if n[0] == 'grp':
            s = '(' + to_abbr(n[2]) + ')' + rep_txt(n[1])
        else:
            _, name, rep, kids, attr, text = n
            s = name.replace('$', '$@77')
            if attr:
                s += '[' + attr.replace('$', '$@77') + ']'
            if text:
                s += '{' + text.replace('$', '$@77') + '}'
            s += rep_txt(rep)
            if kids:
                if len(nodes) > 1 and n is not nodes[-1]:
                    s = '(' + s + '>' + to_abbr(kids) + ')'
                else:
                    s += '>' + to_abbr(kids)
        parts.append(s)
    return '+'.join(parts)


def rep_txt(rep):
    return {'N': '*901', 'M': '*902', None: ''}[rep]


class Unroller:
    """Reference semantics from the property text."""

    def __init__(self, N, M, size, base, reverse, limit):
        self.val = {'N': N, 'M': M}
        self.size, self.base, self.reverse = size, base, reverse
        self.guard = limit if limit is not None else 10 ** 9
        self.truncated = False

    def sub(self, text, ctr):
        if ctr is None:
            c = '0' * (self.size - 1) + '1'
        else:
            c = counter_text(self.size, self.base, self.reverse, ctr[0], ctr[1])
        return text.replace('$', c)

    def nodes(self, nodes, ctr):
        return ''.join([self.node(n, ctr) for n in nodes])

    def node(self, n, ctr):
        rep = n[1] if n[0] == 'grp' else n[2]
        if rep is None:
            return self.one(n, ctr)
        count = self.val[rep]
        out = []
        i = 0
        while i < count:
            out.append(self.one(n, (i, count)))
            self.guard -= 1
            if self.guard <= 0:
                if i < count - 1:
                    self.truncated = True
                break
            i += 1
        return ''.join(out)

    def one(self, n, ctr):
        if n[0] == 'grp':
            return self.nodes(n[2], ctr)
        _, name, rep, kids, attr, text = n
        nm = self.sub(name, ctr)
        at = ''
        if attr:
            k, v = attr.split('=')
            at = ' %s="%s"' % (k, self.sub(v, ctr))
        inner = (self.sub(text, ctr) if text else '') + self.nodes(kids, ctr)
        return '<%s%s>%s</%s>' % (nm, at, inner, nm)


def mk_pipeline(ti, with_limit, nmax, smax, bmax, lmax, nfix=None):
    from vf.pipe import expand_injected, make_config, set_repeat, set_numbering
    tpl = TEMPLATES[ti]
    abbr = to_abbr(tpl)
    from emmet.snippets import markup_snippets
    assert not [n for n in ('ea', 'eb', 'ec', 'ex') if n in markup_snippets]
    usesN, usesM, usesC = '*901' in abbr, '*902' in abbr, '$@77' in abbr
    user = {'options': {'output.format': False}}

    def run(N, M, size, base, reverse, limit, wrong=False):
        u = Unroller(N, M, size, base, reverse, limit)
        expected = u.nodes(tpl, None)
        if wrong:
            expected = Unroller(N + 1, M, size, base, reverse, limit).nodes(tpl, None) if usesN else expected + '!'
        if u.truncated and reverse:
            return 'skip'     # outside the claim, see META

        def edit(toks):
            if usesN:
                set_repeat(toks, 901, N)
            if usesM:
                set_repeat(toks, 902, M)
            if usesC:
                set_numbering(toks, 77, size=size, base=base, reverse=reverse)
        cfg = make_config(dict(user))
        if limit is not None:
            cfg.user_config['maxRepeat'] = limit
        out = expand_injected(abbr, cfg, edit)
        return True if out == expected else 'output_differs'

    def harness(wrong):
        def h(N: int, M: int, size: int, base: int, reverse: bool, limit: int):
            if not (1 <= N <= nmax and 1 <= M <= nmax):
                return 'skip'
            if nfix is not None and N != nfix:
                return 'skip'
            if (not usesN and N != 1) or (not usesM and M != 1):
                return 'skip'
            if usesC:
                if not (1 <= size <= smax and 0 <= base <= bmax):
                    return 'skip'
            elif size != 1 or base != 1 or reverse:
                return 'skip'
            if with_limit:
                if not (1 <= limit <= lmax):
                    return 'skip'
                if size != 1 or base != 1 or reverse:
                    return 'skip'
            elif limit != 0:
                return 'skip'
            return run(N, M, size, base, reverse, limit if with_limit else None, wrong)
        return h
    wit = [dict(N=2 if usesN else 1, M=3 if usesM else 1, size=1, base=1, reverse=False, limit=2 if with_limit else 0)]
    if usesC and not with_limit:
        wit.append(dict(N=3 if usesN else 1, M=2 if usesM else 1, size=3, base=5, reverse=True, limit=0))
    if nfix is not None:
        for w in wit:
            w['N'] = nfix
    return {'fn': harness(False), 'twin': harness(True), 'witnesses': wit,
            'assumptions': ['template %s; N,M in 1..%d; numbering width 1..%d, base 0..%d, direction free; %s' % (
                abbr.replace('@77', '').replace('*901', '*N').replace('*902', '*M'), nmax, smax, bmax,
                'maxRepeat in 1..%d with plain `$` numbering' % lmax if with_limit else 'no maxRepeat') +
                ('; partition N==%d' % nfix if nfix is not None else '')],
            'functions': ['emmet.expand', 'convert.convert_statement', 'convert.convert_group', 'convert.convert_element',
                          'ConvertState.repeat_guard', 'stringify.RepeaterNumber', 'markup.parse (maxRepeat plumbing)']}


def jobs(tier):
    q = tier == 'quick'
    out = []
    for d in (0, 1, 2):
        out.append(Job('C02-a/kernel/depth=%d' % d, 'vf.props.c02:mk_kernel', dict(depth=d), shape='U',
                       bound='size<=6, base,count<=10^5', budget=600, weight=30))
    for L in range(1, (3 if q else 4) + 1):
        out.append(Job('C02-b/recognise/len=%d' % L, 'vf.props.c02:mk_recognise', dict(L=L), shape='W',
                       bound='len=%d over $@-^*0-9a' % L, budget=900 if q else 3000, weight=8 ** L))
    for form in ('forward', 'reverse', 'repeat'):
        out.append(Job('C02-b/digits/%s' % form, 'vf.props.c02:mk_digits', dict(form=form), shape='H',
                       bound='1..3 symbolic digits', budget=900, weight=100))
    nmax, smax, bmax, lmax = (3, 3, 20, 7) if q else (4, 4, 1000, 12)
    for ti in range(len(TEMPLATES)):
        both = '*901' in to_abbr(TEMPLATES[ti]) and '*902' in to_abbr(TEMPLATES[ti])
        for nfix in (range(1, nmax + 1) if both else [None]):
            out.append(Job('C02-c/numbering/t%02d%s' % (ti, '' if nfix is None else ',N=%d' % nfix),
                           'vf.props.c02:mk_pipeline',
                           dict(ti=ti, with_limit=False, nmax=nmax, smax=smax, bmax=bmax, lmax=lmax, nfix=nfix),
                           shape='H', bound='N,M<=%d' % nmax, budget=900 if q else 3000, weight=200))
        if ti in (0, 1, 3, 4, 6, 7, 11, 12, 13, 14, 15, 16, 17) or not q:
            out.append(Job('C02-c/maxRepeat/t%02d' % ti, 'vf.props.c02:mk_pipeline',
                           dict(ti=ti, with_limit=True, nmax=nmax, smax=smax, bmax=bmax, lmax=lmax), shape='H',
                           bound='N,M<=%d, maxRepeat<=%d' % (nmax, lmax), budget=900 if q else 3000, weight=300))
    return out
