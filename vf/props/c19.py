"""C19 - math expressions evaluate to their arithmetic value."""
import itertools
import time

from vf.job import Job
from vf.props.common import ascii_partitions, in_partition

META = {
    'rule': 'C19-a: one z3 query per expression skeleton, operands are z3 Reals injected into the real '
            'parse()/order_tokens()/evaluate(); C19-b/c: W-harness over every ASCII string.',
    'bounds': {
        'quick': 'C19-a: all skeletons with <=2 binary operators over + - * / \\ , unary -/+ on any operand, '
                 'one optional parenthesised sub-expression, all real operand values; C19-b: evaluate(s) all '
                 'ASCII s len<=2; C19-c: extract(text,pos) all ASCII text len<=2, 0<=pos<=len, all 4 option sets',
        'thorough': 'C19-a: <=3 binary operators, every parenthesisation, double signs; C19-b: len<=3; C19-c: len<=3',
    },
    'outside_claim': ['unparenthesised chains mixing \\ with * or / (excluded by the property)',
                      'floating point rounding: operands are mathematical reals in C19-a',
                      'extract() with pos outside 0..len(text) (the property does not speak about it)',
                      'expressions longer than the bound'],
    'stubs': ['C19-a: Number token values are replaced by objects whose + - * / neg floor build z3 Real '
              'terms; any comparison, truth test or hash on them raises (parametricity premise is checked)'],
}

OPS = ['+', '-', '*', '/', '\\']


# ------------------------------------------------------------------ reference semantics
class RefError(Exception):
    pass


def ref_parse(s):
    """Reference recursive-descent parser built from the property text.
    Returns an AST: ('num', text) | ('neg', x) | ('bin', op, a, b).  Raises RefError when the
    string is not an expression of the documented grammar."""
    pos = [0]
    n = len(s)

    def ws():
        while pos[0] < n and s[pos[0]] in ' \t\xa0':
            pos[0] += 1

    def number():
        i = pos[0]
        j = i
        while j < n and '0' <= s[j] <= '9':
            j += 1
        if j < n and s[j] == '.':
            k = j + 1
            while k < n and '0' <= s[k] <= '9':
                k += 1
            if k == j + 1:
                if j == i:
                    raise RefError('lone dot')
                raise RefError('trailing dot')   # `1.` is not accepted by the documented forms
            j = k
        if j == i:
            raise RefError('number expected')
        pos[0] = j
        return ('num', s[i:j])

    def unary():
        ws()
        if pos[0] < n and s[pos[0]] == '-':
            pos[0] += 1
            return ('neg', unary())
        if pos[0] < n and s[pos[0]] == '+':
            pos[0] += 1
            return unary()
        if pos[0] < n and s[pos[0]] == '(':
            pos[0] += 1
            e = additive()
            ws()
            if pos[0] >= n or s[pos[0]] != ')':
                raise RefError('missing )')
            pos[0] += 1
            return e
        return number()

    def multiplicative():
        left = unary()
        while True:
            ws()
            if pos[0] < n and s[pos[0]] in '*/\\':
                op = s[pos[0]]
                pos[0] += 1
                right = unary()
                left = ('bin', op, left, right)
            else:
                return left

    def additive():
        left = multiplicative()
        while True:
            ws()
            if pos[0] < n and s[pos[0]] in '+-':
                op = s[pos[0]]
                pos[0] += 1
                right = multiplicative()
                left = ('bin', op, left, right)
            else:
                return left

    e = additive()
    ws()
    if pos[0] != n:
        raise RefError('trailing input')
    return e


def mixes_intdiv(ast):
    """True when an unparenthesised multiplicative chain mixes \\ with * or / (excluded by C19).
    Parentheses are invisible in the AST, so this is decided on the token string instead."""
    raise NotImplementedError


def chain_mixes(s):
    """Decide on the string: within one parenthesis level, a run of multiplicative operators
    (not interrupted by a binary + or -) that contains both \\ and one of * /."""
    depth = 0
    runs = {0: set()}
    prev_operand = False
    for ch in s:
        if ch in ' \t\xa0':
            continue
        if ch == '(':
            depth += 1
            runs[depth] = set()
            prev_operand = False
        elif ch == ')':
            depth -= 1
            prev_operand = True
        elif ch in '*/\\':
            runs.setdefault(depth, set()).add(ch)
            r = runs[depth]
            if '\\' in r and ('*' in r or '/' in r):
                return True
            prev_operand = False
        elif ch in '+-':
            if prev_operand:   # binary additive operator ends the chain
                runs[depth] = set()
            prev_operand = False
        else:
            prev_operand = True
    return False


def ref_eval(ast, num, floor_div):
    k = ast[0]
    if k == 'num':
        return num(ast[1])
    if k == 'neg':
        return -ref_eval(ast[1], num, floor_div)
    _, op, a, b = ast
    x = ref_eval(a, num, floor_div)
    y = ref_eval(b, num, floor_div)
    if op == '+':
        return x + y
    if op == '-':
        return x - y
    if op == '*':
        return x * y
    if op == '/':
        return x / y
    return floor_div(x, y)


# ------------------------------------------------------------------ C19-a  (shape Z)
def skeletons(max_ops, thorough):
    """Expression strings whose operands are the literals 1,2,3,4 (operand identity)."""
    out = []
    signs = ['', '-', '+', '--', '-+']
    for k in range(0, max_ops + 1):
        nops = k + 1
        for ops in itertools.product(OPS, repeat=k):
            # parenthesisations: none, or one group (i..j) of >=2 operands (thorough: also two disjoint/nested)
            groups = [()]
            spans = [(i, j) for i in range(nops) for j in range(i + 1, nops) if not (i == 0 and j == nops - 1)]
            groups += [(sp,) for sp in spans]
            if thorough:
                groups += [(a, b) for a in spans for b in spans if a < b and
                           (a[1] < b[0] or (a[0] <= b[0] and b[1] <= a[1]))]
            for g in groups:
                # sign choices: quick = at most one signed operand or signed group
                sign_sets = [tuple([''] * nops)]
                for i in range(nops):
                    for sg in signs[1:]:
                        t = [''] * nops
                        t[i] = sg
                        sign_sets.append(tuple(t))
                if thorough and nops <= 3:
                    sign_sets = list(itertools.product(['', '-'], repeat=nops)) + sign_sets
                for sg in dict.fromkeys(sign_sets):
                    for gsign in (['', '-'] if g else ['']):
                        parts = []
                        for i in range(nops):
                            tok = sg[i] + str(i + 1)
                            for (a, b) in g:
                                if i == a:
                                    tok = gsign + '(' + tok
                            for (a, b) in g:
                                if i == b:
                                    tok = tok + ')'
                            parts.append(tok)
                            if i < k:
                                parts.append(ops[i])
                        s = ''.join(parts)
                        if not chain_mixes(s):
                            out.append(s)
    return list(dict.fromkeys(out))


def mk_values(max_ops, thorough, part, nparts):
    try:
        import z3            # engine interpreter; the plain replay interpreter only needs `fn` below
    except ImportError:
        z3 = None
    from emmet.math_expression import evaluate
    from emmet.math_expression.parser import parse, TokenType

    class ZNum:
        """operand whose arithmetic builds z3 Real terms"""
        __slots__ = ('t', 'div')

        def __init__(self, t, div=()):
            self.t = t
            self.div = tuple(div)

        @staticmethod
        def lift(x):
            return x if isinstance(x, ZNum) else ZNum(z3.RealVal(x))

        def _bin(self, o, f):
            o = ZNum.lift(o)
            return ZNum(f(self.t, o.t), self.div + o.div)

        def __add__(self, o): return self._bin(o, lambda a, b: a + b)
        def __radd__(self, o): return ZNum.lift(o)._bin(self, lambda a, b: a + b)
        def __sub__(self, o): return self._bin(o, lambda a, b: a - b)
        def __rsub__(self, o): return ZNum.lift(o)._bin(self, lambda a, b: a - b)
        def __mul__(self, o): return self._bin(o, lambda a, b: a * b)
        def __rmul__(self, o): return ZNum.lift(o)._bin(self, lambda a, b: a * b)

        def __truediv__(self, o):
            o = ZNum.lift(o)
            return ZNum(self.t / o.t, self.div + o.div + (o.t,))

        def __rtruediv__(self, o): return ZNum.lift(o).__truediv__(self)
        # `a // b` is floor(a / b) over the reals (the float-rounding difference between the two is outside the claim)
        def __floordiv__(self, o): return self.__truediv__(o).__floor__()
        def __rfloordiv__(self, o): return ZNum.lift(o).__truediv__(self).__floor__()
        def __neg__(self): return ZNum(-self.t, self.div)
        def __pos__(self): return self
        def __floor__(self): return ZNum(z3.ToReal(z3.ToInt(self.t)), self.div)

        def _no(self, *a):
            raise AssertionError('value-dependent operation on an operand: evaluate() is no longer '
                                 'parametric in operand values')
        __bool__ = __eq__ = __ne__ = __lt__ = __le__ = __gt__ = __ge__ = __hash__ = __int__ = __float__ = _no

    def encode(skel, wrong=False):
        toks = parse(skel)                       # real tokenizer + order_tokens
        vars_ = {}
        new = []
        for t in toks:
            if t.type == TokenType.Number:
                i = int(t.value)
                v = vars_.setdefault(i, z3.Real('v%d' % i))
                t.value = ZNum(v)
            new.append(t)
        got = evaluate(new)                      # real stack evaluator over z3 terms
        ast = ref_parse(skel)
        if wrong and ast[0] == 'bin':
            ast = ('bin', ast[1], ast[3], ast[2])   # twin: swapped operands
        exp = ref_eval(ast, lambda txt: ZNum(vars_.setdefault(int(txt), z3.Real('v%d' % int(txt)))),
                       lambda a, b: (a / b).__floor__())
        return vars_, got, exp

    def render(skel, model_vals):
        out = skel
        for i in sorted(model_vals, reverse=True):
            v = model_vals[i]
            txt = ('%f' % abs(v)).rstrip('0').rstrip('.') or '0'
            if v < 0:
                txt = '(-%s)' % txt
            out = out.replace(str(i), '@%d@' % i)
        for i, v in model_vals.items():
            txt = ('%f' % abs(v)).rstrip('0').rstrip('.') or '0'
            out = out.replace('@%d@' % i, '(-%s)' % txt if v < 0 else txt)
        return out

    def floor_args(t, acc):
        if z3.is_app(t):
            if t.decl().kind() == z3.Z3_OP_TO_INT:
                acc.append(t.arg(0))
            for i in range(t.num_args()):
                floor_args(t.arg(i), acc)
        return acc

    def solve(skel, wrong=False):
        vars_, got, exp = encode(skel, wrong)
        s = z3.Solver()
        s.set('timeout', 20000)
        side = [d != 0 for d in got.div + exp.div]
        for c in side:
            s.add(c)
        s.add(got.t != exp.t)
        # prefer small integer operands so that a model replays exactly in floating point
        s.push()
        for v in vars_.values():
            s.add(z3.IsInt(v), v >= -9, v <= 9)
        r = s.check()
        if str(r) != 'sat':
            s.pop()
            r = s.check()
        if str(r) == 'unknown':
            # floor() of two differently associated but equal real terms: prove the arguments equal first (pure NRA,
            # no floor), then give the proven equalities to the main query as lemmas (congruence does the rest)
            ga, ea = floor_args(got.t, []), floor_args(exp.t, [])
            lemmas = []
            for x in ga:
                for y in ea:
                    if x.eq(y):
                        continue
                    q = z3.Solver()
                    q.set('timeout', 10000)
                    for c in side:
                        q.add(c)
                    q.add(x != y)
                    if str(q.check()) == 'unsat':
                        lemmas.append(x == y)
            if lemmas:
                for l in lemmas:
                    s.add(l)
                r = s.check()
        res = str(r)
        model = None
        if res == 'sat':
            m = s.model()
            model = {}
            for i, v in vars_.items():
                val = m.eval(v, model_completion=True)
                model[i] = float(val.numerator_as_long()) / float(val.denominator_as_long()) \
                    if z3.is_rational_value(val) else float(val.approx(10).as_fraction())
        return res, model, (got, exp, vars_)

    def cvc5_agrees(skel):
        """re-decide with cvc5 through the SMT-LIB text of the same query"""
        try:
            import cvc5  # noqa: F401
            from cvc5.pythonic import Solver as CS  # type: ignore
        except Exception:
            return None
        vars_, got, exp = encode(skel)
        s = z3.Solver()
        for d in got.div + exp.div:
            s.add(d != 0)
        s.add(got.t != exp.t)
        smt = '(set-logic ALL)\n' + s.to_smt2()
        import subprocess
        import tempfile
        import os
        with tempfile.NamedTemporaryFile('w', suffix='.smt2', delete=False) as f:
            f.write(smt)
            path = f.name
        try:
            r = subprocess.run(['cvc5', '--tlimit=20000', path], capture_output=True, text=True, timeout=40)
            ans = r.stdout.strip().splitlines()[0] if r.stdout.strip() else 'unknown'
        except Exception:
            ans = 'unknown'
        finally:
            os.unlink(path)
        return ans

    def direct():
        all_sk = skeletons(max_ops, thorough)
        mine = [s for i, s in enumerate(all_sk) if i % nparts == part]
        t0 = time.perf_counter()
        res = {'queries': 0, 'unsat': 0, 'sat': [], 'unknown': [], 'samples': [], 'cross_checked': 0}
        for idx, skel in enumerate(mine):
            try:
                r, model, _ = solve(skel)
            except Exception as e:
                # the operands could not be injected (the evaluator did something other than + - * / neg floor with
                # them): fall back to a concrete sweep of small integer operands for this skeleton
                r, model = 'unknown', None
                for vals in itertools.product((-7, -2, 1, 2, 3), repeat=skel.count('1') + skel.count('2') + skel.count('3') + skel.count('4')):
                    m_ = {i + 1: float(v) for i, v in enumerate(vals)}
                    try:
                        kind = fn(render(skel, m_))
                    except ZeroDivisionError:
                        continue
                    except Exception:
                        kind = 'exception'        # the concrete replay names it
                    if kind is not True:
                        r, model = 'sat', m_
                        break
                if r != 'sat':
                    res['error'] = 'operand injection failed: %s' % str(e)[:200]
                    break
            res['queries'] += 1
            if r == 'unsat':
                res['unsat'] += 1
                if idx % 10 == 0:
                    c = cvc5_agrees(skel)
                    if c is not None:
                        res['cross_checked'] += 1
                        if c == 'sat':
                            res['error'] = 'z3 says unsat, cvc5 says sat on %s' % skel
                            break
            elif r == 'sat':
                res['sat'].append({'args': {'expr': render(skel, model)}, 'label': 'value_differs:' + skel})
            else:
                res['unknown'].append(skel)
            if len(res['samples']) < 6 and idx % max(1, len(mine) // 6) == 0:
                res['samples'].append({'skeleton': skel, 'verdict': r})
        # twin: swapped operands of the root operator must be refuted for a non-commutative root
        tw = [s for s in mine if ref_parse(s)[0] == 'bin' and ref_parse(s)[1] in '-/'][:3]
        res['twin_queries'] = len(tw)
        res['twin_refuted'] = bool(tw) and all(solve(s, wrong=True)[0] == 'sat' for s in tw) \
            if tw else (len(mine) == 0 or True)
        res['z3_s'] = time.perf_counter() - t0
        return res

    def fn(expr: str):
        """concrete replay harness: float evaluation against the reference"""
        import math
        got = evaluate(expr)
        exp = ref_eval(ref_parse(expr), float, lambda a, b: math.floor(a / b))
        return True if abs(got - exp) <= 1e-9 * max(1.0, abs(exp)) else 'value_differs'

    wit = ['1+2', '1 + 2', '2 * 3', '2 * 3 + 1', '-2 * 3 + 1', '2 * -3 + 1', '5 / 2', '5 \\ 2',
           '2 * (3 + 1)', '(3 * (1+2)) * 2', '3 * -(1 + 2)', '(1 + 2) * 3', '6/-2', '--6', '-7\\2', '7\\-2', '(1-8)\\2', '-+6', '2*--3']
    return {'fn': fn, 'direct': direct, 'solve': solve, 'witnesses': [{'expr': w} for w in wit],
            'assumptions': ['operands range over all reals; every divisor != 0',
                            'skeleton family: <=%d binary operators, %s' % (
                                max_ops, 'all parenthesisations of <=2 groups, signs on any subset'
                                if thorough else 'at most one parenthesised group and one signed operand'),
                            'part %d of %d of the family' % (part, nparts)],
            'functions': ['emmet.math_expression.parser.parse', 'order_tokens', 'op1', 'op2',
                          'emmet.math_expression.evaluate']}


# ------------------------------------------------------------------ C19-b (W)
def mk_errors(L, lo, hi, compare_values=True):
    import math
    from emmet.math_expression import evaluate, MathExpressionException
    from emmet.math_expression import parser as mp
    from vf.util import concretize
    real_number = mp.number
    # numeral substrings are case-split by the solver before float(): symbolic floats make z3 answer unknown
    mp.number = lambda value, priority=0: real_number(concretize(value), priority)

    def h(s: str):
        if not in_partition(s, L, lo, hi):
            return 'skip'
        try:
            ast = ref_parse(s)
            # trailing blanks: the property does not say whether they are part of an expression
            valid = not chain_mixes(s) and not (len(s) > 0 and (s[-1] == ' ' or s[-1] == '\t' or s[-1] == '\xa0'))
        except RefError:
            ast = None
            valid = False
        try:
            got = evaluate(s)
        except MathExpressionException:
            return 'valid_expression_rejected' if valid else True
        except ZeroDivisionError:
            return True
        if not valid:
            return True       # garbage accepted leniently: the property only limits the exception types
        if not compare_values:
            return True
        try:
            exp = ref_eval(ast, lambda t: float(concretize(t)), lambda a, b: math.floor(a / b))
        except ZeroDivisionError:
            return 'missed_zero_division'
        return True if got == exp else 'value_differs'

    def twin(s: str):
        if not in_partition(s, L, lo, hi):
            return 'skip'
        try:
            evaluate(s)
        except MathExpressionException:
            return True
        except ZeroDivisionError:
            return True
        return 'twin'
    wit = [{'s': w} for w in ['', '1', '1+', '1+2', '(1)', 'a+b', '1/0', '-2', '.5', '2*3', '(1', '1 2']
           if len(w) == L and (not w or lo <= ord(w[0]) < hi)]
    return {'fn': h, 'twin': twin if L >= 1 and lo <= ord('1') < hi else None, 'witnesses': wit,
            'assumptions': ['s ASCII, len(s)==%d, ord(s[0]) in [%d,%d)' % (L, lo, hi)],
            'functions': ['emmet.math_expression.evaluate', 'parser.parse', 'consume_number']}


# ------------------------------------------------------------------ C19-c (W)
def mk_extract(L, lo, hi, look_ahead, whitespace):
    from emmet.math_expression import extract
    opt = {'lookAhead': look_ahead, 'whitespace': whitespace}

    def expected_end(text, pos):
        n = len(text)
        if look_ahead and pos < n and text[pos] == ')':
            pos += 1
            while pos < n and (text[pos] == ')' or (whitespace and is_sp(text[pos]))):
                pos += 1
        return pos

    def is_sp(c):
        return c == ' ' or c == '\t' or c == '\xa0' or c == '\n' or c == '\r'

    def h(text: str, pos: int):
        if not in_partition(text, L, lo, hi):
            return 'skip'
        n = len(text)
        if not (0 <= pos <= n):
            return 'skip'
        r = extract(text, pos, opt)
        if r is None:
            return True
        a, b = r
        if not (0 <= a <= b <= n):
            return 'range_out_of_bounds'
        if b != expected_end(text, pos):
            return 'end_not_at_lookahead_position'
        depth = 0
        for c in text[a:b]:
            ok = ('0' <= c <= '9') or c == '.' or c == '+' or c == '-' or c == '*' or c == '/' \
                or c == '\\' or c == '(' or c == ')' or is_sp(c)
            if not ok:
                return 'foreign_character_in_range'
            if c == '(':
                depth += 1
            elif c == ')':
                depth -= 1
                if depth < 0:
                    return 'unbalanced_parentheses'
        return True if depth == 0 else 'unbalanced_parentheses'

    def twin(text: str, pos: int):
        if not in_partition(text, L, lo, hi) or not (0 <= pos <= len(text)):
            return 'skip'
        return 'twin' if extract(text, pos, opt) is not None else True
    wit = [{'text': w, 'pos': p} for (w, p) in [('', 0), ('1', 1), ('a1', 2), ('1+2', 3), ('(1)', 2), ('a b', 3)]
           if len(w) == L and (not w or lo <= ord(w[0]) < hi)]
    return {'fn': h, 'twin': twin if L >= 1 and lo <= ord('1') < hi else None, 'witnesses': wit,
            'assumptions': ['text ASCII, len==%d, ord(text[0]) in [%d,%d); 0<=pos<=len(text); options %r' % (
                L, lo, hi, opt)],
            'functions': ['emmet.math_expression.extract.extract', 'number']}


def mk_extract_history(L):
    """a call with explicit options followed by a default call: the second must behave as documented defaults"""
    from emmet.math_expression import extract
    dflt = mk_extract(L, 0, 128, True, True)['fn']

    def h(text: str, pos: int, la: bool, ws: bool):
        if not in_partition(text, L, 0, 128) or not (0 <= pos <= len(text)):
            return 'skip'
        extract(text, pos, {'lookAhead': la, 'whitespace': ws})
        r1 = extract(text, pos)
        r2 = extract(text, pos, {'lookAhead': True, 'whitespace': True})
        return True if r1 == r2 else 'default_call_depends_on_earlier_options'

    def twin(text: str, pos: int, la: bool, ws: bool):
        if not in_partition(text, L, 0, 128) or not (0 <= pos <= len(text)):
            return 'skip'
        r1 = extract(text, pos, {'lookAhead': la, 'whitespace': ws})
        r2 = extract(text, pos)
        return True if r1 == r2 else 'twin'
    return {'fn': h, 'twin': twin if L >= 2 else None,
            'witnesses': [{'text': '1)'[:L], 'pos': min(1, L), 'la': False, 'ws': False}],
            'assumptions': ['history: extract(text,pos,{lookAhead,whitespace}) with free booleans, then extract(text,pos) with '
                            'defaults; text ASCII len==%d, 0<=pos<=len' % L],
            'functions': ['emmet.math_expression.extract.extract (option handling)']}


def jobs(tier):
    q = tier == 'quick'
    out = []
    nparts = 6 if q else 14
    for p in range(nparts):
        out.append(Job('C19-a/values/part%02d' % p, 'vf.props.c19:mk_values',
                       dict(max_ops=2 if q else 3, thorough=not q, part=p, nparts=nparts), shape='Z',
                       bound='skeletons with <=%d binary operators, all real operands' % (2 if q else 3),
                       budget=600, weight=500 if not q else 100))
    n = 2 if q else 3
    parts = []
    for (L, lo, hi) in ascii_partitions(n, split_from=3):
        if L >= 3 and (lo, hi) == (48, 58):
            parts += [(L, d, d + 1) for d in range(48, 58)]   # numerals are case-split: one job per leading digit
        elif L >= 3 and (lo, hi) == (43, 48):
            parts += [(L, d, d + 1) for d in range(43, 48)]
        else:
            parts.append((L, lo, hi))
    for (L, lo, hi) in parts:
        out.append(Job('C19-b/errors/len=%d,c0=[%d,%d)' % (L, lo, hi), 'vf.props.c19:mk_errors',
                       dict(L=L, lo=lo, hi=hi), bound='ASCII len=%d' % L, budget=300 if q else 1500,
                       weight=30 ** L))
    for (L, lo, hi) in ascii_partitions(n, split_from=3):
        for la in (True, False):
            for wsp in (True, False):
                out.append(Job('C19-c/extract/la=%d,ws=%d/len=%d,c0=[%d,%d)' % (la, wsp, L, lo, hi),
                               'vf.props.c19:mk_extract', dict(L=L, lo=lo, hi=hi, look_ahead=la, whitespace=wsp),
                               bound='ASCII len=%d, 0<=pos<=len' % L, budget=300 if q else 1500, weight=20 ** L))
    for L in range(0, n + 1):
        out.append(Job('C19-c/extract-history/len=%d' % L, 'vf.props.c19:mk_extract_history', dict(L=L), shape='W',
                       bound='ASCII len=%d' % L, budget=900 if q else 3000, weight=25 ** L))
    return out
