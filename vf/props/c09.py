"""C09 - HTML matcher returns the innermost enclosing tag pair with exact ranges."""
from vf.job import Job
from vf.gen import htmldoc as G
from vf.util import fold, ascii_only

META = {
    'rule': 'C09-a: documents assembled from solver-chosen events (open/close/void/self-closed/comment/CDATA/PI/script/style/text) '
            'with the generator\'s own record of element spans as ground truth; position is a symbolic integer [S]. C09-b: fixed '
            'skeletons with symbolic content holes (attribute value, comment, CDATA, PI, script body) - ground truth shifts '
            'linearly with the hole length.',
    'bounds': {
        'quick': 'all well-formed event sequences of <=5 events (HTML mode) / <=4 (XML mode), every integer position; every ordered forest of 6 elements (132 documents, '
                 'both modes); content holes of <=2 characters in 6 skeletons',
        'thorough': '<=6 events HTML, <=5 XML; forests of 7 elements (429 documents, 2 rotations); holes <=3 characters',
    },
    'outside_claim': ['malformed documents (C16)', 'symbolic tag names', 'balanced_inward at positions that coincide with a tag '
                      'boundary (the property does not say which of two touching elements is "at" the position)',
                      'attribute values ending in a backslash (the scanner treats \\" as an escaped quote)'],
}


def tag_json(t):
    return (t.name, tuple(t.open), tuple(t.close) if t.close else None)


def mk_events(K, xml, first, second, rot):
    from emmet import html_matcher as hm
    opt = {'xml': True} if xml else None

    def check(doc, elems, pos, wrong):
        enc = G.enclosing(elems, pos)
        m = hm.match(doc, pos, opt)
        if not enc:
            if m is not None:
                return 'match_outside_any_element'
        else:
            e = enc[-1] if wrong and len(enc) > 1 else enc[0]
            if m is None:
                return 'no_match_inside_element'
            if (m.name, tuple(m.open), tuple(m.close) if m.close else None) != (e.name, e.open, e.close):
                return 'match_is_not_innermost_element'
            got = [(a.name, a.value, (a.name_start, a.name_end),
                    (a.value_start, a.value_end) if a.value is not None else None) for a in m.attributes]
            if got != e.attrs:
                return 'attribute_ranges_differ'
            for a in m.attributes:
                if doc[a.name_start:a.name_end] != a.name or (a.value is not None and doc[a.value_start:a.value_end] != a.value):
                    return 'attribute_range_does_not_slice_to_attribute'
        out = [tag_json(t) for t in hm.balanced_outward(doc, pos, opt)]
        if out != [(e.name, e.open, e.close) for e in enc]:
            return 'outward_list_differs'
        # inward: only where "the element at the position" is unambiguous
        boundary = any([pos == e.start or pos == e.end for e in elems])
        if not boundary:
            inw = [tag_json(t) for t in hm.balanced_inward(doc, pos, opt)]
            exp = []
            if enc:
                e = enc[0]
                while e is not None:
                    exp.append((e.name, e.open, e.close))
                    e = e.children[0] if e.children else None
            if inw != exp:
                return 'inward_list_differs'
        return True

    def harness(wrong):
        def h(k1: int, k2: int, k3: int, k4: int, k5: int, pos: int):
            ks = [first]
            if k1 != second:
                return 'skip'
            for k in [k1, k2, k3, k4, k5][:K - 1]:
                if not (0 <= k < G.NK):
                    return 'skip'
                ks.append(k)
                if not G.prefix_ok(ks, xml):
                    return 'skip'
            for k in [k1, k2, k3, k4, k5][K - 1:]:
                if k != G.END:
                    return 'skip'
            if not G.complete(ks):
                return 'skip'
            doc, elems = G.build(ks, rot, xml)
            return check(doc, elems, pos, wrong)
        return h
    E = G.END
    wit = []
    for tail in ([G.CLOSE, G.CLOSE], [G.CLOSE], [G.SELF, G.CLOSE, G.CLOSE], []):
        ks = ([first, second] + tail + [E] * 6)[:6]
        if len([k for k in ks if k != E]) > K or not (G.prefix_ok(ks[:K], xml) and G.complete(ks[:K])):
            continue
        for p in (1, 6, 12):
            wit.append(dict(k1=ks[1], k2=ks[2], k3=ks[3], k4=ks[4], k5=ks[5], pos=p))
    nested = first in (G.OPEN, G.OPENA) and second in (G.OPEN, G.OPENA) and K >= 4
    return {'fn': harness(False), 'twin': harness(True) if nested else None, 'witnesses': wit, 'check': check,
            'assumptions': ['document = well-formed sequence of <=%d events, events 0,1 are kinds %d,%d, the others solver-chosen from '
                            '{open, open+attributes, close, void, self-closed, inert (comment/CDATA/PI/text by slot), special '
                            '(script/style by slot), end}; variant rotation %d; xml=%s; pos any integer' % (K, first, second, rot, xml)],
            'functions': ['html_matcher.match', 'balanced_outward', 'balanced_inward', 'get_attributes', 'scan.scan',
                          'attributes.attributes', 'alloc_tag/release_tag (pooling)', 'is_self_close']}


def mk_forest(n, part, nparts, rot, xml):
    """documents that are deeper and wider than K events reach: every ordered forest of n elements"""
    from vf.gen import forest
    from vf.util import pick_int
    check = mk_events(5, xml, G.OPEN, G.OPEN, rot)['check']
    words = [w for i, w in enumerate(forest.dyck(n)) if i % nparts == part]
    docs = [G.build(forest.html_kinds(w, rot, xml, G), rot, xml) for w in words]

    def harness(wrong):
        def h(i: int, pos: int):
            if not (0 <= i < len(docs)):
                return 'skip'
            doc, elems = docs[pick_int(i, 0, len(docs) - 1)]
            return check(doc, elems, pos, wrong)
        return h
    return {'fn': harness(False), 'twin': harness(True), 'witnesses': [dict(i=0, pos=1), dict(i=len(docs) - 1, pos=7)],
            'assumptions': ['document = ordered forest %d mod %d of all %d forests with %d elements (solver-chosen index); leaves rotate through '
                            'empty pair / void / self-closed, every third inner element carries attributes (rotation %d); xml=%s; pos any integer' % (
                                part, nparts, len(forest.dyck(n)), n, rot, xml)],
            'functions': ['html_matcher.match', 'balanced_outward', 'balanced_inward', 'alloc_tag/release_tag (pooling)', 'scan.scan']}


# ------------------------------------------------------------------ content holes
HOLES = {
    'attr-dq': ('<d1 a="', '" b=c><s2/></d1>', 'open'),
    'attr-sq': ("<d1><e2 a='", "'>x</e2></d1>", 'open2'),
    'comment': ('<d1><!--', '--><s2/></d1>', 'pre'),
    'cdata': ('<d1><![CDATA[', ']]><s2/></d1>', 'pre'),
    'pi': ('<d1><?p ', '?><s2/></d1>', 'pre'),
    'script': ('<d1><script>', '</script><s2/></d1>', 'script'),
}


def mk_hole(kind, n):
    from emmet.html_matcher import scan
    from emmet.html_matcher.utils import default_special
    from emmet import html_matcher as hm
    head, tail, shape = HOLES[kind]

    def pre(v):
        if len(v) > n or not ascii_only(v, 128):
            return False
        if kind == 'attr-dq':
            ok = fold(v, lambda o: (o != 34) & (o != 92))
        elif kind == 'attr-sq':
            ok = fold(v, lambda o: (o != 39) & (o != 92))
        else:
            ok = True
        if not ok:
            return False
        # the hole must not contain the terminator of its own construct
        term = {'comment': '-->', 'cdata': ']]>', 'pi': '?>', 'script': '</script>'}.get(kind)
        if term:
            s = v + tail[:len(term) - 1]
            for i in range(len(v)):
                if s[i:i + len(term)] == term:
                    return False
            if kind == 'pi' and not fold(v, lambda o: (o != 34) & (o != 39)):
                return False     # a quote in a PI starts a quoted run that may swallow `?>`
        return True

    def expected(v):
        L = len(v)
        h, t = len(head), len(tail)
        doc_len = h + L + t
        if shape == 'open':
            # <d1 a="v" b=c> <s2/> </d1>
            o_end = h + L + len('" b=c>')
            return [('d1', 1, 0, o_end), ('s2', 3, o_end, o_end + 5), ('d1', 2, o_end + 5, doc_len)]
        if shape == 'open2':
            o2s = 4
            o2e = h + L + 2
            return [('d1', 1, 0, 4), ('e2', 1, o2s, o2e), ('e2', 2, o2e + 1, o2e + 6), ('d1', 2, o2e + 6, doc_len)]
        if shape == 'pre':
            s2 = doc_len - len('<s2/></d1>')
            return [('d1', 1, 0, 4), ('s2', 3, s2, s2 + 5), ('d1', 2, s2 + 5, doc_len)]
        # script
        so = 4
        sc = h + L
        return [('d1', 1, 0, 4), ('script', 1, so, h), ('script', 2, sc, sc + 9), ('s2', 3, sc + 9, sc + 14),
                ('d1', 2, sc + 14, doc_len)]

    def harness(wrong):
        def h(v: str, anchor: int):
            if not pre(v):
                return 'skip'
            doc = head + v + tail
            tags = []
            scan(doc, lambda name, t, a, b: tags.append((name, t, a, b)), default_special)
            exp = expected(v)
            if wrong:
                exp = exp[:-1]
            if tags != exp:
                return 'content_contributed_or_moved_tags'
            # a few anchored positions: just inside the outer element, inside the hole, just before the end
            if not (0 <= anchor <= 2):
                return 'skip'
            pos = [1, len(head), len(doc) - 1][anchor]
            m = hm.match(doc, pos)
            if m is None:
                return 'no_match_at_anchor'
            if anchor != 1 and m.name != 'd1':
                return 'wrong_match_at_anchor'
            return True
        return h
    return {'fn': harness(False), 'twin': harness(True), 'witnesses': [{'v': '', 'anchor': 0}, {'v': '<a'[:n], 'anchor': 1}],
            'assumptions': ['document %r + v + %r; v ASCII, <=%d characters, not containing the terminator of its construct '
                            '(quote and backslash excluded for attribute values, quotes for the PI body); position tied to 3 anchors' % (
                                head, tail, n)],
            'functions': ['html_matcher.scan.scan', 'skip_attributes', 'comment/cdata/processing_instruction', 'consume_closing',
                          'scanner_utils.eat_quoted']}


def jobs(tier):
    q = tier == 'quick'
    out = []
    for xml in (False, True):
        K = (5 if q else 6) - (1 if xml else 0)
        for first in (G.OPEN, G.OPENA, G.VOID, G.SELF, G.INERT, G.SPECIAL):
            for second in range(G.NK):
                if not G.prefix_ok([first, second], xml):
                    continue
                for rot in ((0,) if q else (0, 1, 2, 3)):
                    out.append(Job('C09-a/events/%s/K=%d,e0=%d,e1=%d,rot=%d' % ('xml' if xml else 'html', K, first, second, rot),
                                   'vf.props.c09:mk_events', dict(K=K, xml=xml, first=first, second=second, rot=rot), shape='H',
                                   bound='<=%d events' % K, budget=1500 if q else 6000,
                                   weight=1000 if first in (G.OPEN, G.OPENA) else 200))
    n = 6 if q else 7
    nparts = 6 if q else 16
    for xml in (False, True):
        for part in range(nparts):
            for rot in ((0,) if q else (0, 1)):
                out.append(Job('C09-c/forest/%s/n=%d,rot=%d,part%d' % ('xml' if xml else 'html', n, rot, part), 'vf.props.c09:mk_forest',
                               dict(n=n, part=part, nparts=nparts, rot=rot, xml=xml), shape='H', bound='forests of %d elements' % n,
                               budget=1500 if q else 6000, weight=900))
    for kind in HOLES:
        out.append(Job('C09-b/hole/%s' % kind, 'vf.props.c09:mk_hole', dict(kind=kind, n=2 if q else 3), shape='H',
                       bound='hole <=%d chars' % (2 if q else 3), budget=1500 if q else 6000, weight=800))
    return out
