"""C17 - editor action helpers select exactly the tag, attribute and property parts."""
from vf.job import Job
from vf.gen import htmldoc as H
from vf.gen import cssdoc as C
from vf.util import fold, ascii_only

META = {
    'rule': 'Same event generators as C09/C10 (documents chosen event by event by the solver, ground truth recorded while the text is '
            'assembled), symbolic integer position; plus symbolic holes: a class attribute made of two tokens and a blank run of '
            'symbolic content, and a CSS value of two symbolic tokens.',
    'bounds': {
        'quick': 'HTML documents of <=4 events, CSS documents of <=5 events, every integer position; every ordered forest of 6 nodes in both languages (132 documents '
                 'each, nested up to 6 deep); class/value holes <=2 chars per token',
        'thorough': 'HTML <=5 events, CSS <=6 events, 4 variant rotations; forests of 7 nodes',
    },
    'outside_claim': ['get_open_tag() for positions inside a CLOSING tag (the statement speaks of open/self-closing tags)',
                      'declarations terminated by `}` in select_item_css (whether the brace belongs to the item is not stated)',
                      'positions between a value end and its semicolon', 'select_item_css(next) with the caret strictly inside a declaration or selector '
                      '(the remainder of that item is returned)', 'malformed documents (C16)'],
}


def mk_html(K, first, second, rot):
    from emmet.action_utils import get_open_tag, select_item_html

    def check(doc, elems, pos, wrong):
        # --- get_open_tag
        tags = [e for e in elems]
        inside = [e for e in tags if e.open[0] < pos < e.open[1]]
        in_close = any([e.close is not None and e.close[0] < pos < e.close[1] for e in tags])
        t = get_open_tag(doc, pos)
        if inside:
            e = inside[0]
            if t is None or (t.name, t.start, t.end) != (e.name, e.open[0], e.open[1]):
                return 'open_tag_differs'
            got = [(a.name, a.value, (a.name_start, a.name_end), (a.value_start, a.value_end) if a.value is not None else None)
                   for a in (t.attributes or [])]
            if got != e.attrs:
                return 'open_tag_attribute_ranges_differ'
        elif not in_close and t is not None:
            return 'open_tag_outside_any_tag'
        # --- select next / previous item
        nxt = [e for e in tags if e.open[1] > pos]
        m = select_item_html(doc, pos)
        if nxt:
            e = nxt[-1] if wrong and len(nxt) > 1 else nxt[0]
            if m is None or (m.start, m.end) != e.open:
                return 'next_item_is_not_the_next_tag'
            if [tuple(r) for r in m.ranges] != H.selection_ranges(e):
                return 'next_item_ranges_differ'
            for (a, b) in m.ranges:
                if not (e.open[0] <= a <= b <= e.open[1]):
                    return 'range_outside_tag'
        elif m is not None:
            return 'next_item_after_last_tag'
        prv = [e for e in tags if e.open[0] < pos]
        m = select_item_html(doc, pos, True)
        if prv:
            e = prv[-1]
            if m is None or (m.start, m.end) != e.open:
                return 'previous_item_is_not_the_previous_tag'
            if [tuple(r) for r in m.ranges] != H.selection_ranges(e):
                return 'previous_item_ranges_differ'
        elif m is not None:
            return 'previous_item_before_first_tag'
        return True

    def harness(wrong):
        def h(k1: int, k2: int, k3: int, k4: int, pos: int):
            ks = [first]
            if k1 != second:
                return 'skip'
            for k in [k1, k2, k3, k4][:K - 1]:
                if not (0 <= k < H.NK):
                    return 'skip'
                ks.append(k)
                if not H.prefix_ok(ks, False):
                    return 'skip'
            for k in [k1, k2, k3, k4][K - 1:]:
                if k != H.END:
                    return 'skip'
            if not H.complete(ks):
                return 'skip'
            doc, elems = H.build(ks, rot)
            return check(doc, elems, pos, wrong)
        return h
    E = H.END
    wit = []
    for tail in ([H.CLOSE, H.CLOSE], [H.CLOSE], [H.SELF, H.CLOSE], []):
        ks = ([first, second] + tail + [E] * 5)[:5]
        if len([k for k in ks if k != E]) > K or not (H.prefix_ok(ks[:K], False) and H.complete(ks[:K])):
            continue
        for p in (0, 2, 9):
            wit.append(dict(k1=ks[1], k2=ks[2], k3=ks[3], k4=ks[4], pos=p))
    two = first in (H.OPEN, H.OPENA, H.SELF, H.VOID, H.SPECIAL) and second in (H.OPEN, H.OPENA, H.SELF, H.VOID, H.SPECIAL)
    return {'fn': harness(False), 'twin': harness(True) if two else None, 'witnesses': wit, 'check': check,
            'assumptions': ['HTML document = well-formed sequence of <=%d events (kinds as in C09), events 0,1 = %d,%d, rotation %d; pos '
                            'any integer' % (K, first, second, rot)],
            'functions': ['action_utils.html.get_open_tag', 'shift_attribute_ranges', 'select_next_item', 'select_previous_item',
                          'get_tag_selection_model', 'value_range', 'action_utils.utils.token_list/push_range']}


def mk_class_hole(n):
    """class attribute = token1 + blanks + token2 with symbolic tokens and a symbolic blank run"""
    from emmet.action_utils import select_item_html
    head = '<d1 class="'
    tail = '" x><s2/></d1>'

    def tok_ok(t):
        return 1 <= len(t) <= n and bool(fold(t, lambda o: (o > 32) & (o < 127) & (o != 34) & (o != 92)))

    def blank_ok(b):
        return 1 <= len(b) <= 2 and bool(fold(b, lambda o: (o == 32) | (o == 9) | (o == 10)))

    def harness(wrong):
        def h(t1: str, b: str, t2: str, trail: bool):
            if not (tok_ok(t1) and tok_ok(t2) and blank_ok(b)):
                return 'skip'
            val = t1 + b + t2 + (' ' if trail else '')
            doc = head + val + tail
            m = select_item_html(doc, 0)
            vs = len(head)
            ve = vs + len(val)
            exp = [(1, 3), (4, ve + 1), (vs, ve), (vs, vs + len(t1)), (vs + len(t1) + len(b), vs + len(t1) + len(b) + len(t2)),
                   (ve + 2, ve + 3)]
            if wrong:
                exp = exp[:-1]
            got = [tuple(r) for r in m.ranges]
            return True if got == exp else 'class_token_ranges_differ'
        return h
    return {'fn': harness(False), 'twin': harness(True),
            'witnesses': [dict(t1='ab'[:n], b=' ', t2='c', trail=False), dict(t1='a', b='\t ', t2='b', trail=True)],
            'assumptions': ['<d1 class="T1 BL T2[ ]" x>: tokens 1..%d printable ASCII characters without quote/backslash, blank run 1..2 of '
                            'space/tab/newline, optional trailing blank' % n],
            'functions': ['action_utils.html.get_tag_selection_model', 'value_range', 'action_utils.utils.token_list']}


def mk_css(K, first, second, rot):
    from emmet.action_utils import get_css_section, select_item_css

    def check(doc, items, pos, wrong):
        for d in items:
            if d.kind == 'decl' and d.ve <= pos <= d.semi:
                return 'skip'
            if d.kind == 'stmt' and d.name_end <= pos <= d.semi:
                return 'skip'
        rules = [r for r in items if r.kind == 'rule' and r.start <= pos <= r.end]
        strict = [r for r in items if r.kind == 'rule' and r.start < pos < r.end]
        sec = get_css_section(doc, pos, True)
        if strict and len(strict) == len(rules):      # not on a rule boundary: the innermost rule is unambiguous
            strict.sort(key=lambda r: -r.start)
            r = strict[-1] if wrong and len(strict) > 1 else strict[0]
            if sec is None or (sec.start, sec.end, sec.body_start, sec.body_end) != (r.start, r.end, r.brace + 1, r.close):
                return 'section_is_not_the_innermost_rule'
            decls = [c for c in r.children if c.kind == 'decl']
            props = sec.properties or []
            # value-less statements may or may not show up among the properties (not stated): entries whose name range is a
            # statement are ignored, the declarations around them must still be exact
            stmt_names = [(c.start, c.name_end) for c in r.children if c.kind == 'stmt']
            props = [p for p in props if tuple(p.name) not in stmt_names]
            if len(props) != len(decls):
                return 'direct_declarations_missing_or_extra'
            for p, d in zip(props, decls):
                if tuple(p.name) != (d.start, d.name_end) or tuple(p.value) != (d.vs, d.ve):
                    return 'declaration_name_or_value_range_differs'
                if [tuple(t) for t in p.value_tokens] != d.tokens:
                    return 'value_tokens_differ'
                if p.after != d.end:
                    return 'after_offset_differs'
                i = r.children.index(d)
                before = r.brace + 1 if i == 0 else r.children[i - 1].end
                j = i - 1
                while j >= 0 and r.children[j].kind == 'rule':
                    j -= 1          # nested rules between the statement and this declaration do not reset the library's marker either
                if i > 0 and j >= 0 and r.children[j].kind == 'stmt':
                    # after a value-less statement the library starts `before` at the next name; the property does not say:
                    # anything from the end of the statement to the name start is accepted
                    if not (before <= p.before <= d.start):
                        return 'before_offset_differs'
                elif p.before != before:
                    return 'before_offset_differs'
        elif not rules and sec is not None:
            return 'section_outside_any_rule'
        # --- next item: first selector or declaration that starts at or after pos
        starts = sorted([(it.start, it) for it in items])
        nxt = [it for (s, it) in starts if s >= pos]
        m = select_item_css(doc, pos)
        # with the caret strictly inside a declaration or a selector, "next" is the remaining part of that item - the
        # property only speaks of whole items, so such positions are not asserted
        inside_item = any([it.start < pos < (it.brace + 1 if it.kind == 'rule' else it.end) for it in items])
        if inside_item:
            pass
        elif nxt:
            it = nxt[0]
            if it.kind == 'rule':
                # selector text = from start to the last non-blank before `{`
                e = it.brace
                while e > it.start and doc[e - 1] in ' \t\n':
                    e -= 1
                if m is None or (m.start, m.end, [tuple(x) for x in m.ranges]) != (it.start, e, [(it.start, e)]):
                    return 'next_item_is_not_the_selector'
            elif it.kind == 'stmt':
                pass     # a value-less statement is neither selector nor declaration: whether "next" stops at it is not stated
            else:
                exp = [(it.start, it.end), (it.vs, it.ve)]
                for t in it.tokens:
                    if exp[-1] != t:
                        exp.append(t)
                if m is None or (m.start, m.end, [tuple(x) for x in m.ranges]) != (it.start, it.end, exp):
                    return 'next_item_is_not_the_declaration'
        elif m is not None:
            return 'next_item_after_last_item'
        # --- previous item
        prv = [it for (s, it) in starts if s < pos]
        m = select_item_css(doc, pos, True)
        if prv:
            it = prv[-1]
            if it.kind == 'rule':
                e = it.brace
                while e > it.start and doc[e - 1] in ' \t\n':
                    e -= 1
                if m is None or (m.start, m.end, [tuple(x) for x in m.ranges]) != (it.start, e, [(it.start, e)]):
                    return 'previous_item_is_not_the_selector'
            elif it.kind == 'stmt':
                if m is None or (m.start, m.end, [tuple(x) for x in m.ranges]) != (it.start, it.name_end, [(it.start, it.name_end)]):
                    return 'previous_item_is_not_the_statement'
            else:
                exp = [(it.start, it.end), (it.vs, it.ve)]
                for t in it.tokens:
                    if exp[-1] != t:
                        exp.append(t)
                if m is None or (m.start, m.end, [tuple(x) for x in m.ranges]) != (it.start, it.end, exp):
                    return 'previous_item_is_not_the_declaration'
        elif m is not None:
            return 'previous_item_before_first_item'
        return True

    def harness(wrong):
        def h(k1: int, k2: int, k3: int, k4: int, k5: int, pos: int):
            ks = [first]
            if k1 != second:
                return 'skip'
            for k in [k1, k2, k3, k4, k5][:K - 1]:
                if not (0 <= k < C.NK):
                    return 'skip'
                ks.append(k)
                if not C.prefix_ok(ks):
                    return 'skip'
            for k in [k1, k2, k3, k4, k5][K - 1:]:
                if k != C.END:
                    return 'skip'
            if not C.complete(ks):
                return 'skip'
            doc, items = C.build(ks, rot, stmts=True)
            return check(doc, items, pos, wrong)
        return h
    E = C.END
    wit = []
    for tail in ([C.CLOSE, C.CLOSE], [C.CLOSE], [C.DECL, C.CLOSE, C.CLOSE], [C.DECL, C.CLOSE], []):
        ks = ([first, second] + tail + [E] * 6)[:6]
        if len([k for k in ks if k != E]) > K or not (C.prefix_ok(ks[:K]) and C.complete(ks[:K])):
            continue
        for p in (0, 3, 9, 14):
            wit.append(dict(k1=ks[1], k2=ks[2], k3=ks[3], k4=ks[4], k5=ks[5], pos=p))
    nested = first in (C.RULE, C.ATRULE) and second in (C.RULE, C.ATRULE) and K >= 4
    return {'fn': harness(False), 'twin': harness(True) if nested else None, 'witnesses': wit, 'check': check,
            'assumptions': ['stylesheet = well-formed sequence of <=%d events (kinds as in C10), events 0,1 = %d,%d, rotation %d; pos any '
                            'integer except between a value end and its semicolon' % (K, first, second, rot)],
            'functions': ['action_utils.css.get_css_section', 'parse_properties', 'CSSProperty', 'select_next_item', 'select_previous_item',
                          'css_matcher.parse.split_value']}


def mk_forest(lang, n, part, nparts, rot):
    """documents deeper and wider than K events reach: every ordered forest of n nodes (see vf/gen/forest.py)"""
    from vf.gen import forest
    from vf.util import pick_int
    words = [w for i, w in enumerate(forest.dyck(n)) if i % nparts == part]
    if lang == 'html':
        check = mk_html(4, H.OPEN, H.OPEN, rot)['check']
        docs = [H.build(forest.html_kinds(w, rot, False, H), rot) for w in words]
    else:
        check = mk_css(5, C.RULE, C.RULE, rot)['check']
        docs = [C.build(forest.css_kinds(w, rot, C), rot, stmts=True) for w in words]
        docs += [C.build(ks, r, stmts=True) for r in (0, 1) for i, ks in enumerate(C.pool_family()) if i % nparts == part]

    def harness(wrong):
        def h(i: int, pos: int):
            if not (0 <= i < len(docs)):
                return 'skip'
            doc, items = docs[pick_int(i, 0, len(docs) - 1)]
            return check(doc, items, pos, wrong)
        return h
    return {'fn': harness(False), 'twin': harness(True), 'witnesses': [dict(i=0, pos=1), dict(i=len(docs) - 1, pos=7)],
            'assumptions': ['%s document = ordered forest %d mod %d of all %d forests with %d nodes (solver-chosen index), leaf/inner variants '
                            'by rotation %d; pos any integer (css: except between a value end and its semicolon)' % (
                                lang, part, nparts, len(forest.dyck(n)), n, rot)],
            'functions': ['action_utils.html.get_open_tag/select_item_html' if lang == 'html' else
                          'action_utils.css.get_css_section/parse_properties/select_item_css']}


def mk_value_hole(n):
    from emmet.action_utils import get_css_section
    head = 'a{b:'
    tail = ';c:d}'

    def tok_ok(t):
        return 1 <= len(t) <= n and bool(fold(t, lambda o: ((o >= 97) & (o <= 122)) | ((o >= 48) & (o <= 57)) | (o == 37) | (o == 46) | (o == 35)))

    def harness(wrong):
        def h(t1: str, t2: str, comma: bool):
            if not (tok_ok(t1) and tok_ok(t2)):
                return 'skip'
            sep = ', ' if comma else ' '
            val = t1 + sep + t2
            doc = head + val + tail
            sec = get_css_section(doc, 1, True)
            vs = len(head)
            p = sec.properties[0]
            exp = [(vs, vs + len(t1)), (vs + len(t1) + len(sep), vs + len(val))]
            if wrong:
                exp = exp[:1]
            if tuple(p.value) != (vs, vs + len(val)) or [tuple(t) for t in p.value_tokens] != exp:
                return 'value_tokens_differ'
            if p.after != vs + len(val) + 1 or p.before != 2:
                return 'before_after_differ'
            q = sec.properties[1]
            e = len(doc) - 1
            if tuple(q.name) != (e - 3, e - 2) or tuple(q.value) != (e - 1, e) or q.after != e or q.before != p.after:
                return 'last_declaration_differs'
            return True
        return h
    return {'fn': harness(False), 'twin': harness(True),
            'witnesses': [dict(t1='1px', t2='a', comma=False)][:1] if n >= 3 else [dict(t1='1', t2='a', comma=True)],
            'assumptions': ['a{b:T1 T2;c:d} with two symbolic value tokens of 1..%d characters [a-z0-9%%.#], separated by a blank or a comma; '
                            'second declaration ends with the body' % n],
            'functions': ['action_utils.css.parse_properties', 'CSSProperty', 'css_matcher.parse.split_value']}


def jobs(tier):
    q = tier == 'quick'
    out = []
    K = 4 if q else 5
    for first in (H.OPEN, H.OPENA, H.VOID, H.SELF, H.INERT, H.SPECIAL):
        for second in range(H.NK):
            if not H.prefix_ok([first, second], False):
                continue
            for rot in ((0,) if q else (0, 1, 2, 3)):
                out.append(Job('C17-a/html/K=%d,e0=%d,e1=%d,rot=%d' % (K, first, second, rot), 'vf.props.c17:mk_html',
                               dict(K=K, first=first, second=second, rot=rot), shape='H', bound='<=%d events' % K,
                               budget=1500 if q else 6000, weight=500))
    out.append(Job('C17-a/class-hole', 'vf.props.c17:mk_class_hole', dict(n=2 if q else 3), shape='H', bound='tokens <=2 chars',
                   budget=1500, weight=800))
    K = 5 if q else 6
    for first in (C.RULE, C.ATRULE, C.DECL, C.INERT):
        for second in range(C.NK):
            if not C.prefix_ok([first, second]):
                continue
            for rot in ((0,) if q else (0, 1, 2, 3)):
                out.append(Job('C17-b/css/K=%d,e0=%d,e1=%d,rot=%d' % (K, first, second, rot), 'vf.props.c17:mk_css',
                               dict(K=K, first=first, second=second, rot=rot), shape='H', bound='<=%d events' % K,
                               budget=1500 if q else 6000, weight=700))
    n = 6 if q else 7
    nparts = 6 if q else 16
    for lang in ('html', 'css'):
        for part in range(nparts):
            out.append(Job('C17-c/forest/%s/n=%d,part%d' % (lang, n, part), 'vf.props.c17:mk_forest',
                           dict(lang=lang, n=n, part=part, nparts=nparts, rot=0), shape='H', bound='forests of %d nodes' % n,
                           budget=1500 if q else 6000, weight=900))
    out.append(Job('C17-b/value-hole', 'vf.props.c17:mk_value_hole', dict(n=2 if q else 3), shape='H', bound='tokens <=2 chars',
                   budget=1500, weight=800))
    return out
