"""C10 - CSS matcher returns the innermost rule or declaration with exact ranges."""
from vf.job import Job
from vf.gen import cssdoc as G
from vf.util import fold, ascii_only

META = {
    'rule': 'C10-a: stylesheets assembled from solver-chosen events (rule / at-rule / close / declaration / comment-or-blank) with the '
            'generator\'s record of rule and declaration spans as ground truth, symbolic integer position [S]; C10-b: fixed skeletons '
            'with symbolic content holes (string, comment, parenthesised expression, selector text, value text).',
    'bounds': {
        'quick': 'all well-formed event sequences of <=5 events (several top-level rules included), every integer position; every ordered forest of 6 nodes (132 '
                 'stylesheets nested up to 6 deep); holes <=2 chars',
        'thorough': '<=6 events, 4 variant rotations; forests of 7 nodes (429 stylesheets, 2 rotations); holes <=3 chars',
    },
    'outside_claim': ['declarations terminated by `}` instead of `;` (the property speaks of semicolon-terminated declarations)',
                      'positions between the end of a value and its semicolon', 'balanced_inward at recorded boundary offsets',
                      'malformed stylesheets (C16)'],
}


def expected_outward(items, pos):
    """value, declaration, then for every enclosing rule content then full range; consecutive duplicates collapse"""
    out = []

    def push(r):
        if r is not None and r[0] != r[1] and (not out or out[-1] != r):
            out.append(r)
    decl = [d for d in items if d.kind == 'decl' and d.start < pos < d.ve]
    cur = None
    if decl:
        d = decl[0]
        push((d.vs, d.ve))
        push((d.start, d.end))
        cur = d.parent
    else:
        rules = [r for r in items if r.kind == 'rule' and r.start < pos < r.end]
        rules.sort(key=lambda r: -r.start)
        cur = rules[0] if rules else None
    while cur is not None:
        push(cur.content)
        push((cur.start, cur.end))
        cur = cur.parent
    return out


def mk_events(K, first, second, rot):
    from emmet import css_matcher as cm

    def check(doc, items, pos, wrong):
        # assumption zone: between a value end and its semicolon the property does not define the answer
        for d in items:
            if d.kind == 'decl' and d.ve <= pos <= d.semi:
                return 'skip'
        decl = [d for d in items if d.kind == 'decl' and d.start < pos < d.ve]
        rules = [r for r in items if r.kind == 'rule' and r.start < pos < r.end]
        rules.sort(key=lambda r: -r.start)
        m = cm.match(doc, pos)
        if decl:
            d = decl[0]
            if m is None or (m.type, m.start, m.end, m.body_start, m.body_end) != ('property', d.start, d.end, d.vs, d.ve):
                return 'match_is_not_the_declaration'
        elif rules:
            r = rules[-1] if wrong and len(rules) > 1 else rules[0]
            if m is None or (m.type, m.start, m.end, m.body_start, m.body_end) != ('selector', r.start, r.end, r.brace + 1, r.close):
                return 'match_is_not_the_innermost_rule'
        elif m is not None:
            return 'match_outside_everything'
        out = [tuple(x) for x in cm.balanced_outward(doc, pos)]
        if out != expected_outward(items, pos):
            return 'outward_list_differs'
        if not any([pos == o for o in G.offsets(items)]):
            inw = [tuple(x) for x in cm.balanced_inward(doc, pos)]
            exp = []

            def push(r):
                if r is not None and r[0] != r[1] and (not exp or exp[-1] != r):
                    exp.append(r)
            cur = decl[0] if decl else (rules[0] if rules else None)
            while cur is not None:
                if cur.kind == 'decl':
                    push((cur.start, cur.end))
                    push((cur.vs, cur.ve))
                    cur = None
                else:
                    push((cur.start, cur.end))
                    push(cur.content)
                    cur = cur.children[0] if cur.children else None
            if inw != exp:
                return 'inward_list_differs'
        return True

    def harness(wrong):
        def h(k1: int, k2: int, k3: int, k4: int, k5: int, pos: int):
            ks = [first]
            if k1 != second:
                return 'skip'
            for k in [k1, k2, k3, k4, k5][:K - 1]:
                if not (0 <= k < G.NK):
                    return 'skip'
                ks.append(k)
                if not G.prefix_ok(ks):
                    return 'skip'
            for k in [k1, k2, k3, k4, k5][K - 1:]:
                if k != G.END:
                    return 'skip'
            if not G.complete(ks):
                return 'skip'
            doc, items = G.build(ks, rot)
            return check(doc, items, pos, wrong)
        return h
    E = G.END
    wit = []
    for tail in ([G.CLOSE, G.CLOSE], [G.CLOSE], [G.DECL, G.CLOSE, G.CLOSE], [G.DECL, G.CLOSE], []):
        ks = ([first, second] + tail + [E] * 6)[:6]
        if len([k for k in ks if k != E]) > K or not (G.prefix_ok(ks[:K]) and G.complete(ks[:K])):
            continue
        for p in (1, 5, 9, 14):
            wit.append(dict(k1=ks[1], k2=ks[2], k3=ks[3], k4=ks[4], k5=ks[5], pos=p))
    nested = first in (G.RULE, G.ATRULE) and second in (G.RULE, G.ATRULE) and K >= 4
    return {'fn': harness(False), 'twin': harness(True) if nested else None, 'witnesses': wit, 'check': check,
            'assumptions': ['stylesheet = well-formed sequence of <=%d events, events 0,1 are kinds %d,%d, others solver-chosen from {rule, '
                            'at-rule, close, declaration, comment/blank, end}; selector/declaration/whitespace variants rotate by slot '
                            '(rotation %d); pos any integer except between a value end and its semicolon' % (K, first, second, rot)],
            'functions': ['css_matcher.match', 'balanced_outward', 'balanced_inward', 'inner_range', 'push', 'scan.scan', 'literal',
                          'comment', 'is_known_selector_colon']}


def mk_forest(n, part, nparts, rot):
    """stylesheets that are deeper and wider than K events reach: every ordered forest of n nodes"""
    from vf.gen import forest
    from vf.util import pick_int
    check = mk_events(5, G.RULE, G.RULE, rot)['check']
    words = [w for i, w in enumerate(forest.dyck(n)) if i % nparts == part]
    docs = [G.build(forest.css_kinds(w, rot, G), rot) for w in words]

    def harness(wrong):
        def h(i: int, pos: int):
            if not (0 <= i < len(docs)):
                return 'skip'
            doc, items = docs[pick_int(i, 0, len(docs) - 1)]
            return check(doc, items, pos, wrong)
        return h
    return {'fn': harness(False), 'twin': harness(True), 'witnesses': [dict(i=0, pos=1), dict(i=len(docs) - 1, pos=7)],
            'assumptions': ['stylesheet = ordered forest %d mod %d of all %d forests with %d nodes (solver-chosen index): inner nodes are rules '
                            '(every fourth an at-rule), leaves declarations (every third an empty rule), rotation %d; pos any integer except '
                            'between a value end and its semicolon' % (part, nparts, len(forest.dyck(n)), n, rot)],
            'functions': ['css_matcher.match', 'balanced_outward', 'balanced_inward', 'scan.scan']}


HOLES = {
    'string': ('a{b:"', '";c:d;}e{f:g;}'),
    'comment': ('a{/*', '*/b:c;}e{f:g;}'),
    'paren': ('a{b:url(', ');c:d;}e{f:g;}'),
    'selector': ('a ', '{b:c;}e{f:g;}'),
    'value': ('a{b:x', ';c:d;}e{f:g;}'),
    # `;`, `{`, `}` inside an unquoted parenthesised expression: the property says they never delimit (known finding K02)
    'paren-delims': ('a{b:url(', ');c:d;}e{f:g;}'),
}


def mk_hole(kind, n):
    from emmet.css_matcher import scan
    from emmet import css_matcher as cm
    head, tail = HOLES[kind]

    def pre(v):
        if len(v) > n or not ascii_only(v, 128):
            return False
        if kind == 'string':
            return True if fold(v, lambda o: (o != 34) & (o != 92) & (o != 10) & (o != 13)) else False
        if kind == 'comment':
            s = v + '*'
            for i in range(len(v)):
                if s[i:i + 2] == '*/':
                    return False
            # a trailing `*` would pair with the closing `*/` harmlessly; a `/` right after the opening `*` cannot occur
            return True
        if kind == 'paren':
            return True if fold(v, lambda o: (o != 40) & (o != 41) & (o != 34) & (o != 39) & (o != 92) & (o != 47) & (o != 59) & (o != 123) & (o != 125)) else False
        if kind == 'paren-delims':
            if len(v) == 0:
                return False
            return True if fold(v, lambda o: (o == 59) | (o == 123) | (o == 125) | (o == 120)) else False
        if kind == 'selector':
            return True if fold(v, lambda o: ((o >= 97) & (o <= 122)) | (o == 32) | (o == 46) | (o == 62) | (o == 35)) else False
        return True if fold(v, lambda o: ((o >= 97) & (o <= 122)) | (o == 32) | ((o >= 48) & (o <= 57)) | (o == 45) | (o == 37)) else False

    def harness(wrong):
        def h(v: str):
            if not pre(v):
                return 'skip'
            doc = head + v + tail
            L = len(v)
            toks = []
            scan(doc, lambda t, a, b, d: toks.append((t, a, b, d)))
            h_, t_ = len(head), len(tail)
            end = h_ + L + t_
            e0 = end - len('e{f:g;}')
            tail_toks = [('selector', e0, e0 + 1, e0 + 1), ('propertyName', e0 + 2, e0 + 3, e0 + 3),
                         ('propertyValue', e0 + 4, e0 + 5, e0 + 5), ('blockEnd', e0 + 6, e0 + 7, e0 + 6)]
            if wrong:
                tail_toks = tail_toks[:-1]
            if kind == 'paren-delims':
                first = [t for t in toks if t[1] < h_ + L + 1]
                exp = [('selector', 0, 1, 1), ('propertyName', 2, 3, 3), ('propertyValue', 4, h_ + L + 1, h_ + L + 1)]
                if wrong:
                    exp = exp[:-1]
                return True if (toks[:3] == exp and toks[-4:] == tail_toks and len(toks) == 10) else 'parenthesised_content_delimits'
            if toks[-4:] != tail_toks:
                return 'content_delimited_something'
            # the second rule is found wherever we are in it
            m = cm.match(doc, e0 + 1)
            if m is None or (m.start, m.end) != (e0, end):
                return 'second_rule_not_matched'
            out = cm.balanced_outward(doc, e0 + 4)
            if [tuple(x) for x in out] != [(e0 + 4, e0 + 5), (e0 + 2, e0 + 6), (e0, end)]:
                return 'outward_in_second_rule_differs'
            n_first = {'string': 6, 'comment': 4, 'paren': 6, 'selector': 4, 'value': 6, 'paren-delims': 6}[kind]
            if len(toks) != n_first + 4:
                return 'content_contributed_tokens'
            return True
        return h
    return {'fn': harness(False), 'twin': harness(True), 'witnesses': [{'v': ''}, {'v': 'x'}] if kind != 'paren-delims' else [{'v': 'x'}],
            'assumptions': ['stylesheet %r + v + %r; v ASCII <=%d characters restricted to what the construct may contain (no closing '
                            'delimiter of its own construct)' % (head, tail, n)],
            'functions': ['css_matcher.scan.scan', 'literal', 'comment', 'match', 'balanced_outward']}


def jobs(tier):
    q = tier == 'quick'
    out = []
    K = 5 if q else 6
    for first in (G.RULE, G.ATRULE, G.DECL, G.INERT):
        for second in range(G.NK):
            if not G.prefix_ok([first, second]):
                continue
            for rot in ((0,) if q else (0, 1, 2, 3)):
                out.append(Job('C10-a/events/K=%d,e0=%d,e1=%d,rot=%d' % (K, first, second, rot), 'vf.props.c10:mk_events',
                               dict(K=K, first=first, second=second, rot=rot), shape='H', bound='<=%d events' % K,
                               budget=1500 if q else 6000, weight=1000 if first in (G.RULE, G.ATRULE) else 300))
    n = 6 if q else 7
    nparts = 6 if q else 16
    for part in range(nparts):
        for rot in ((0,) if q else (0, 1)):
            out.append(Job('C10-c/forest/n=%d,rot=%d,part%d' % (n, rot, part), 'vf.props.c10:mk_forest',
                           dict(n=n, part=part, nparts=nparts, rot=rot), shape='H', bound='forests of %d nodes' % n,
                           budget=1500 if q else 6000, weight=900))
    for kind in HOLES:
        out.append(Job('C10-b/hole/%s' % kind, 'vf.props.c10:mk_hole', dict(kind=kind, n=2 if q else 3), shape='H',
                       bound='hole <=%d chars' % (2 if q else 3), budget=1500 if q else 6000, weight=800))
    return out
