"""C18 - tokenizers are lossless: token spans tile the abbreviation."""
from vf.job import Job
from vf.props.common import ascii_partitions, in_partition

META = {
    'rule': 'W-harness: every ASCII string of the stated length through the real tokenizer; '
            'oracle = scanner error with 0<=pos<=len, or spans defined, non-empty, contiguous 0..len.',
    'bounds': {
        'quick': 'markup tokenize, stylesheet tokenize (property and value mode): all ASCII strings len<=2; 10 markup and 12 stylesheet prefixes (function names, custom properties, fields, escapes) + every suffix of <=2 characters',
        'thorough': 'the same for all ASCII strings len<=3 (partitioned by length and first-character class); suffixes of <=3 characters after the 8+8 '
                    'original prefixes, <=2 after the 6 prefixes added in round 4',
    },
    'outside_claim': ['strings longer than the bound', 'code points >= 128',
                      'random long inputs (no sampling in this technique)'],
}


def tiles(toks, n):
    p = 0
    for t in toks:
        if t.start is None or t.end is None:
            return 'span_undefined'
        if t.start != p:
            return 'gap_or_overlap'
        if t.end <= t.start:
            return 'empty_token'
        p = t.end
    if p != n:
        return 'not_covering'
    return True


def mk_markup(L, lo, hi):
    from emmet.abbreviation import tokenize
    from emmet.scanner import ScannerException

    def h(s: str):
        if not in_partition(s, L, lo, hi):
            return 'skip'
        try:
            toks = tokenize(s)
        except ScannerException as e:
            return True if 0 <= e.pos <= len(s) else 'error_pos_out_of_range'
        return tiles(toks, len(s))

    def twin(s: str):
        if not in_partition(s, L, lo, hi):
            return 'skip'
        try:
            toks = tokenize(s)
        except ScannerException as e:
            return True if e.pos > len(s) else 'twin'
        return tiles(toks, len(s) + 1) if L else 'empty'

    wit = [w for w in ['', 'a', 'ul>li', 'a{b}', '$@-3', 'a*3', '[a="b"]', 'a b', '{', '}}', '$#']
           if len(w) == L and (not w or lo <= ord(w[0]) < hi)]
    return {'fn': h, 'twin': twin, 'witnesses': [{'s': w} for w in wit],
            'assumptions': ['s is ASCII (code points < 128), len(s) == %d, ord(s[0]) in [%d,%d)' % (L, lo, hi)],
            'functions': ['emmet.abbreviation.tokenizer.tokenize and all consumers']}


def mk_css(L, lo, hi, value_mode):
    from emmet.css_abbreviation import tokenize
    from emmet.scanner import ScannerException

    def h(s: str):
        if not in_partition(s, L, lo, hi):
            return 'skip'
        try:
            toks = tokenize(s, value_mode)
        except ScannerException as e:
            return True if 0 <= e.pos <= len(s) else 'error_pos_out_of_range'
        return tiles(toks, len(s))

    def twin(s: str):
        if not in_partition(s, L, lo, hi):
            return 'skip'
        try:
            toks = tokenize(s, value_mode)
        except ScannerException as e:
            return True if e.pos > len(s) else 'twin'
        return tiles(toks, len(s) + 1) if L else 'empty'

    wit = [w for w in ['', 'p', 'p10', 'c#f', 'm-1', '--a', 'a(b)', '"a', 'p:a', '1.5', '@a', '$a', '!']
           if len(w) == L and (not w or lo <= ord(w[0]) < hi)]
    return {'fn': h, 'twin': twin, 'witnesses': [{'s': w} for w in wit],
            'assumptions': ['s is ASCII (code points < 128), len(s) == %d, ord(s[0]) in [%d,%d), '
                            'value mode %s' % (L, lo, hi, value_mode)],
            'functions': ['emmet.css_abbreviation.tokenizer.tokenize and all consumers']}


M_PREFIXES = ['ul>li{x', 'a[b="', 'x$@-', 'a{${1:', 'a\\', 'a*', '(a)*2', 'a.b$#', 'x$@^', 'x$$@']
C_PREFIXES = ['a1', 'scale3d', 'p--', 'c#f', 'a$b', 'lg(', 'p:"', 'a1(2,', '#12', 'c#f0a1', 'p1.', 'm-1-']


def mk_prefixed(lang, pi, n, value_mode=False):
    """valid (or half-typed) prefix + every suffix of <=n characters"""
    if lang == 'markup':
        from emmet.abbreviation import tokenize as tk
        head = M_PREFIXES[pi]
        run = lambda s: tk(s)
    else:
        from emmet.css_abbreviation import tokenize as tk
        head = C_PREFIXES[pi]
        run = lambda s: tk(s, value_mode)
    from emmet.scanner import ScannerException

    def h(R: str):
        if len(R) > n:
            return 'skip'
        ok = True
        for c in R:
            ok = ok & (ord(c) < 128)
        if not ok:
            return 'skip'
        s = head + R
        try:
            toks = run(s)
        except ScannerException as e:
            return True if 0 <= e.pos <= len(s) else 'error_pos_out_of_range'
        return tiles(toks, len(s))

    def twin(R: str):
        if len(R) > n:
            return 'skip'
        s = head + R
        try:
            toks = run(s)
        except ScannerException as e:
            return True if e.pos > len(s) else 'twin'
        return tiles(toks, len(s) + 1)
    return {'fn': h, 'twin': twin, 'witnesses': [{'R': ''}, {'R': '('[:n]}, {'R': '}'[:n]}],
            'assumptions': ['%s abbreviation = %r + R, R any ASCII string of <=%d characters%s' % (
                lang, head, n, '; value mode' if value_mode else '')],
            'functions': ['tokenize and all consumers (merge_tokens/create_literal, custom_property, escaped, field)']}


def jobs(tier):
    n = 2 if tier == 'quick' else 3
    out = []
    for pi in range(len(M_PREFIXES)):
        m = 2 if pi >= 8 else n        # the prefixes added in round 4 keep the 2-character suffix bound in both tiers
        out.append(Job('C18-b/prefixed/markup/p%02d' % pi, 'vf.props.c18:mk_prefixed', dict(lang='markup', pi=pi, n=m), shape='H',
                       bound='prefix + <=%d chars' % m, budget=1500 if m == 2 else 6000, weight=50 ** m))
    for pi in range(len(C_PREFIXES)):
        for vm in ((False, True) if C_PREFIXES[pi] in ('a1', 'p--', 'lg(', '#12') or tier != 'quick' else (False,)):
            m = 2 if pi >= 8 else n
            out.append(Job('C18-b/prefixed/css-%s/p%02d' % ('value' if vm else 'prop', pi), 'vf.props.c18:mk_prefixed',
                           dict(lang='css', pi=pi, n=m, value_mode=vm), shape='H', bound='prefix + <=%d chars' % m,
                           budget=1500 if m == 2 else 6000, weight=50 ** m))
    for (L, lo, hi) in ascii_partitions(n):
        tag = 'len=%d,c0=[%d,%d)' % (L, lo, hi)
        big = L >= 3
        out.append(Job('C18-a/markup/%s' % tag, 'vf.props.c18:mk_markup', dict(L=L, lo=lo, hi=hi),
                       bound='ASCII ' + tag, budget=1500 if big else 240, weight=(40 ** L)))
        for vm in (False, True):
            out.append(Job('C18-a/css-%s/%s' % ('value' if vm else 'prop', tag), 'vf.props.c18:mk_css',
                           dict(L=L, lo=lo, hi=hi, value_mode=vm), bound='ASCII ' + tag,
                           budget=1500 if big else 240, weight=(40 ** L)))
    return out
