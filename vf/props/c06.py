"""C06 - a stylesheet snippet is always reachable by its own key."""
import re

from vf.job import Job

META = {
    'rule': 'Finite-table property: the key (and keyword, letter-case pattern, scope, user table) is a solver-chosen index [C]; the '
            'expectation is computed by a reference reader of the snippet DEFINITION TEXT (split at `:` and `|`, `${n:placeholder}` -> '
            'placeholder), never by the library\'s snippet parser; the path tree is exhausted over the whole table.',
    'bounds': {
        'quick': 'every key of the css table (exhaustive) without scope and under @@property/@@section; every single-word dash-free keyword '
                 'alternative of every property snippet in lower/UPPER/aLtErNaTiNg case; every ordered pair of distinct user keys over '
                 '{q,w,-} (<=3 chars, starting with a letter) plus override of 6 built-in keys; every function keyword with a dash- and digit-free name typed by its '
                 'name (alone, after a use with arguments in the same abbreviation, after such a use in an earlier call sharing the cache); keywords of user property snippets '
                 '(after anonymous tabstops, capitalised, function-shaped) in 3 letter cases; user raw '
                 'snippets: 5 bodies x 9 placeholder texts (with colons, blanks, parentheses, empty)',
        'thorough': 'the same for all six stylesheet syntaxes',
    },
    'outside_claim': ['keywords containing dashes or listed only inside multi-token alternatives', 'keys that differ only in letter case',
                      'snippet tables that change between calls sharing one cache'],
    'stubs': ['snippet table converted outside the tracer once per path and passed through the documented cache option',
              'tokenization of the (per path concrete) abbreviation runs outside the tracer'],
}

FIELD = re.compile(r'\$\{(\d+)(?::([^}]*))?\}')
PROP = re.compile(r'^([a-z-]+)(?:\s*:\s*([^\n\r;]+?);*)?$')


def read_definition(text):
    """('property', name, [alternatives]) or ('raw', body)"""
    m = PROP.match(text)
    if not m:
        return ('raw', text)
    alts = m.group(2).split('|') if m.group(2) else []
    return ('property', m.group(1), alts)


def render(text, raw=False):
    """what a definition fragment looks like once its tabstops show their placeholders (in a property value a tabstop written
    inside a quoted string is part of the string and stays as written; a raw snippet is plain text with tabstops)"""
    if raw:
        return FIELD.sub(lambda m: m.group(2) or '', text)
    out = []
    for i, part in enumerate(re.split(r"('[^']*'|\"[^\"]*\")", text)):
        out.append(part if i % 2 else FIELD.sub(lambda m: m.group(2) or '', part))
    return ''.join(out)


def norm(s):
    """blanks between value tokens are C05's subject (`${1:0}s` prints as `0 s`): compared without them"""
    return re.sub(r'\s+', '', s)


def table(syntax):
    from emmet.config import Config
    return sorted(Config({'type': 'stylesheet', 'syntax': syntax}).snippets.items())


def mk_keys(syntax, part, nparts, scope):
    from vf.pipe import make_css_config, expand_concrete_tokens
    from vf.props.c05 import SYNTAX
    tab = [kv for i, kv in enumerate(table(syntax)) if i % nparts == part]
    between, after = SYNTAX.get(syntax, (': ', ';'))

    def expected(key, text):
        d = read_definition(text)
        if d[0] == 'raw':
            return 'raw', render(d[1], raw=True)
        _, prop, alts = d
        return 'property', prop + between + (norm(render(alts[0])) if alts else '') + after

    def harness(wrong):
        def h(i: int):
            if not (0 <= i < len(tab)):
                return 'skip'
            key, text = tab[i]
            if key == 'lg':
                return 'skip'        # gradient shortcut: resolved by a separate mechanism (outside C06)
            user = {'type': 'stylesheet', 'syntax': syntax}
            if scope:
                user['context'] = {'name': scope}
            out = expand_concrete_tokens(key, make_css_config(user))
            kind, exp = expected(key, text)
            if wrong:
                exp = exp + ' '
            permitted = (not scope) or (scope == '@@property' and kind == 'property') or (scope == '@@section' and kind == 'raw')
            if permitted:
                got = out if kind == 'raw' else norm(out)
                want = exp if kind == 'raw' else norm(exp) if not wrong else exp
                return True if got == want else 'key_does_not_reach_its_own_snippet:' + key
            # a scope must keep the other kind of snippet out
            return True if (out != exp or wrong) and True else 'scope_does_not_restrict:' + key
        return h
    return {'fn': harness(False), 'twin': harness(True) if not scope else None, 'witnesses': [{'i': 0}, {'i': min(5, len(tab) - 1)}],
            'assumptions': ['syntax %s, keys %d mod %d of the merged stylesheet snippet table (%d keys, solver-chosen index); scope %s' % (
                syntax, part, nparts, len(tab), scope or 'none')],
            'functions': ['stylesheet.parse/resolve_node/find_best_match/resolve_as_property/resolve_as_snippet/wrap_with_field/'
                          'get_snippets_for_scope', 'stylesheet.score.calculate_score', 'stylesheet.snippets.create_snippet/nest',
                          'stylesheet.format.*']}


def keyword_cases(syntax):
    out = []
    for key, text in table(syntax):
        d = read_definition(text)
        if d[0] != 'property':
            continue
        for alt in d[2]:
            if re.match(r'^[a-z]+$', alt):
                out.append((key, d[1], alt))
            elif ',' in alt and '(' not in alt and '$' not in alt:
                # comma list (font stacks): every bare word of the list is a keyword, spelled as in the table
                for word in [w.strip() for w in alt.split(',')]:
                    if re.match(r'^[A-Za-z]+$', word):
                        out.append((key, d[1], word))
    return out


def mk_keywords(syntax, part, nparts):
    from vf.pipe import make_css_config, expand_concrete_tokens
    from vf.props.c05 import SYNTAX
    cases = [c for i, c in enumerate(keyword_cases(syntax)) if i % nparts == part]
    between, after = SYNTAX.get(syntax, (': ', ';'))

    def harness(wrong):
        def h(i: int, case: int):
            if not (0 <= i < len(cases) and 0 <= case <= 2):
                return 'skip'
            key, prop, kw = cases[i]
            typed = kw if case == 0 else kw.upper() if case == 1 else ''.join(
                [c.upper() if j % 2 else c.lower() for j, c in enumerate(kw)])
            out = expand_concrete_tokens(key + ':' + typed, make_css_config({'type': 'stylesheet', 'syntax': syntax}))
            exp = prop + between + kw + after + (' ' if wrong else '')
            return True if out == exp else 'keyword_not_resolved:' + key + ':' + typed
        return h
    return {'fn': harness(False), 'twin': harness(True), 'witnesses': [{'i': 0, 'case': 0}, {'i': min(3, len(cases) - 1), 'case': 1}],
            'assumptions': ['syntax %s; (key, keyword) pairs %d mod %d of all single-word dash-free alternatives (%d pairs); keyword typed in '
                            'lower, UPPER or alternating case' % (syntax, part, nparts, len(cases))],
            'functions': ['stylesheet.resolve_keyword', 'resolve_value_keywords', 'find_best_match', 'score.calculate_score',
                          'snippets.collect_keywords']}


def user_keys():
    out = []
    for n in (1, 2, 3):
        def rec(prefix):
            if len(prefix) == n:
                out.append(prefix)
                return
            for c in 'qw-':
                if not prefix and c == '-':
                    continue
                rec(prefix + c)
        rec('')
    return out


def mk_user_pairs(part, nparts):
    from vf.pipe import make_css_config, expand_concrete_tokens
    keys = user_keys()
    pairs = [(a, b) for a in keys for b in keys if a != b and '-' not in b]      # the typed key must be typable: letters only
    mine = [p for i, p in enumerate(pairs) if i % nparts == part]

    def harness(wrong):
        def h(i: int):
            if not (0 <= i < len(mine)):
                return 'skip'
            k1, k2 = mine[i]
            cfg = make_css_config({'type': 'stylesheet', 'snippets': {k1: 'aaa-first:x', k2: 'bbb-second:y'}})
            out = expand_concrete_tokens(k2, cfg)
            exp = 'bbb-second: y;' if not wrong else 'aaa-first: x;'
            return True if out == exp else 'user_key_does_not_reach_its_own_snippet:' + k1 + ',' + k2
        return h
    return {'fn': harness(False), 'twin': harness(True), 'witnesses': [{'i': 0}, {'i': min(7, len(mine) - 1)}],
            'assumptions': ['user snippet table of two keys (k1, k2), every ordered pair %d mod %d of distinct strings over {q,w,-} of <=3 '
                            'characters starting with a letter, k2 dash-free (%d pairs); typing k2 must give k2\'s property' % (part, nparts, len(mine))],
            'functions': ['stylesheet.find_best_match (direct-hit shortcut)', 'score.calculate_score (acronym bonus)', 'snippets.nest']}


OVERRIDE = ['p', 'pos', 'bd', '@m', 'pgbb', 'c']


def mk_override():
    from vf.pipe import make_css_config, expand_concrete_tokens

    def harness(wrong):
        def h(i: int, raw: bool):
            if not (0 <= i < len(OVERRIDE)):
                return 'skip'
            key = OVERRIDE[i]
            body = 'my ${1:own} text' if raw else 'my-own-prop:val'
            cfg = make_css_config({'type': 'stylesheet', 'snippets': {key: body, 'zzq': 'fresh-prop:v'}})
            out = expand_concrete_tokens(key, cfg)
            exp = 'my own text' if raw else 'my-own-prop: val;'
            if wrong:
                exp += ' '
            if out != exp:
                return 'user_snippet_does_not_replace_builtin:' + key
            return True if expand_concrete_tokens('zzq', cfg) == 'fresh-prop: v;' else 'new_user_key_not_reachable'
        return h
    return {'fn': harness(False), 'twin': harness(True), 'witnesses': [{'i': 0, 'raw': False}, {'i': 3, 'raw': True}],
            'assumptions': ['user snippet (property or raw) under one of the built-in keys %r plus a fresh key' % OVERRIDE],
            'functions': ['config.merged_data (user snippets over built-ins)', 'stylesheet.convert_snippets']}


def function_keyword_cases(syntax):
    """(key, property, function name, alternative text) for alternatives that are one function call with a dash- and digit-free name"""
    out = []
    for key, text in table(syntax):
        d = read_definition(text)
        if d[0] != 'property':
            continue
        for alt in d[2]:
            m = re.match(r'^([a-z]+)\((.*)\)$', alt)
            if m:
                out.append((key, d[1], m.group(1), alt))
    return out


def mk_function_keywords(syntax):
    """A function keyword typed by its name resolves to the listed call - also after the same keyword was used WITH arguments,
    in the same abbreviation or in an earlier call that shares the converted snippet table (cache)."""
    from vf.pipe import make_css_config, expand_concrete_tokens
    from vf.props.c05 import SYNTAX
    cases = function_keyword_cases(syntax)
    between, after = SYNTAX.get(syntax, (': ', ';'))

    def harness(wrong):
        def h(i: int, mode: int):
            if not (0 <= i < len(cases) and 0 <= mode <= 2):
                return 'skip'
            key, prop, fname, alt = cases[i]
            cfg = make_css_config({'type': 'stylesheet', 'syntax': syntax})
            exp = prop + between + render(alt) + after + (' ' if wrong else '')
            typed = key + ':' + fname
            if mode == 0:
                out = expand_concrete_tokens(typed, cfg)
            elif mode == 1:
                both = expand_concrete_tokens(typed + '(7, 8)+' + typed, cfg)
                out = both.split('\n')[-1]
            else:
                expand_concrete_tokens(typed + '(7, 8)', cfg)
                out = expand_concrete_tokens(typed, cfg)
            return True if norm(out) == norm(exp) and not wrong or out == exp else 'function_keyword_not_resolved:%s:mode%d' % (typed, mode)
        return h
    return {'fn': harness(False), 'twin': harness(True), 'witnesses': [{'i': 0, 'mode': 0}, {'i': len(cases) - 1, 'mode': 2}],
            'assumptions': ['syntax %s; every (key, function keyword) of the table whose name is dash- and digit-free (%d cases, solver-chosen); '
                            'mode 0 `key:name`, mode 1 `key:name(7, 8)+key:name` (last line observed), mode 2 two calls sharing one Config/cache' % (
                                syntax, len(cases))],
            'functions': ['stylesheet.resolve_value_keywords', 'resolve_keyword', 'stylesheet.snippets.collect_keywords']}


RAW_PLACEHOLDERS = ['own', 'min-width: 768px', 'a:b', 'http://e.com/a.css', 'a b', '1:2:3', '', 'x-y', 'f(1, 2)']
RAW_BODIES = ['@zq (${1:P}) { ${2} }', 'my ${1:P} text', '${1:P}', 'zz ${2:P} ${1:q}', '@import url(${1:P});']


def mk_user_raw():
    """user raw snippets typed by their exact key: body with its tabstops, placeholder text verbatim"""
    from vf.pipe import make_css_config, expand_concrete_tokens, Recorder

    def harness(wrong):
        def h(bi: int, pi: int, builtin: bool):
            if not (0 <= bi < len(RAW_BODIES) and 0 <= pi < len(RAW_PLACEHOLDERS)):
                return 'skip'
            ph = RAW_PLACEHOLDERS[pi]
            body = RAW_BODIES[bi].replace('P', ph)
            if not ph:
                body = body.replace('${1:}', '${1}').replace('${2:}', '${2}')
            key = '@m' if builtin else 'zzq'
            rec = Recorder()
            cfg = make_css_config({'type': 'stylesheet', 'snippets': {key: body}, 'options': {'output.field': rec.field}})
            out = expand_concrete_tokens(key, cfg)
            exp = render(body, raw=True) + (' ' if wrong else '')
            if out != exp:
                return 'raw_snippet_body_differs:%d:%d' % (bi, pi)
            want = [(int(m.group(1)), m.group(2) or '') for m in FIELD.finditer(body)]
            return True if rec.fields == want else 'raw_snippet_tabstops_differ:%d:%d' % (bi, pi)
        return h
    return {'fn': harness(False), 'twin': harness(True), 'witnesses': [{'bi': 0, 'pi': 0, 'builtin': False}, {'bi': 1, 'pi': 1, 'builtin': True}],
            'assumptions': ['user raw snippet under a fresh key or over the built-in `@m`; body from %r with P replaced by a placeholder from %r '
                            '(solver-chosen indices)' % (RAW_BODIES, RAW_PLACEHOLDERS)],
            'functions': ['stylesheet.resolve_as_snippet', 'stylesheet.snippets.create_snippet', 'stylesheet.format.*']}


USER_PROPS = {'bdx': 'border-x:${1} solid ${2:#000}|none', 'mk': 'mask-x:${1} url(${2}) round|none', 'Vis': 'vis-x:Hidden|shown',
              'tq': 'tq-x:${1:a} inset|outset ${2}'}
USER_KW = [('bdx', 'border-x', 'solid', 'solid'), ('bdx', 'border-x', 'none', 'none'), ('mk', 'mask-x', 'round', 'round'),
           ('mk', 'mask-x', 'url', 'url()'), ('mk', 'mask-x', 'none', 'none'), ('Vis', 'vis-x', 'Hidden', 'Hidden'), ('Vis', 'vis-x', 'shown', 'shown'),
           ('tq', 'tq-x', 'inset', 'inset'), ('tq', 'tq-x', 'outset', 'outset')]


def mk_user_keywords():
    """keywords listed by USER property snippets (after anonymous tabstops, capitalised, function-shaped) typed in full in three letter cases"""
    from vf.pipe import make_css_config, expand_concrete_tokens

    def harness(wrong):
        def h(i: int, case: int):
            if not (0 <= i < len(USER_KW) and 0 <= case <= 2):
                return 'skip'
            key, prop, kw, shown = USER_KW[i]
            typed = kw if case == 0 else kw.upper() if case == 1 else kw.lower()
            cfg = make_css_config({'type': 'stylesheet', 'snippets': dict(USER_PROPS)})
            out = expand_concrete_tokens(key + ':' + typed, cfg)
            exp = prop + ': ' + shown + ';' + (' ' if wrong else '')
            return True if out == exp else 'user_keyword_not_resolved:' + key + ':' + typed
        return h
    return {'fn': harness(False), 'twin': harness(True), 'witnesses': [dict(i=0, case=0), dict(i=5, case=1)],
            'assumptions': ['user property snippets %r; keyword (solver-chosen) typed as listed / UPPER / lower' % USER_PROPS],
            'functions': ['stylesheet.snippets.collect_keywords (tabstops inside alternatives)', 'score.calculate_score (letter case)',
                          'stylesheet.resolve_value_keywords']}


def jobs(tier):
    q = tier == 'quick'
    out = []
    for syn in (['css'] if q else ['css', 'scss', 'sass', 'less', 'sss', 'stylus']):
        for scope in (None, '@@property', '@@section'):
            for part in range(4):
                out.append(Job('C06-a/keys/%s/%s/part%d' % (syn, scope or 'noscope', part), 'vf.props.c06:mk_keys',
                               dict(syntax=syn, part=part, nparts=4, scope=scope), shape='H', bound='table-exhaustive', budget=1500,
                               weight=300))
        for part in range(6):
            out.append(Job('C06-b/keywords/%s/part%d' % (syn, part), 'vf.props.c06:mk_keywords', dict(syntax=syn, part=part, nparts=6),
                           shape='H', bound='table-exhaustive', budget=1500, weight=400))
        out.append(Job('C06-b/function-keywords/%s' % syn, 'vf.props.c06:mk_function_keywords', dict(syntax=syn), shape='H',
                       bound='table-exhaustive x 3 modes', budget=1500, weight=350))
    out.append(Job('C06-c/user-keywords', 'vf.props.c06:mk_user_keywords', {}, shape='H', bound='9 keywords x 3 cases', budget=900, weight=200))
    out.append(Job('C06-c/user-raw', 'vf.props.c06:mk_user_raw', {}, shape='H', bound='5 bodies x 9 placeholders', budget=900, weight=200))
    for part in range(4):
        out.append(Job('C06-c/user-pairs/part%d' % part, 'vf.props.c06:mk_user_pairs', dict(part=part, nparts=4), shape='H',
                       bound='all ordered pairs', budget=1500, weight=300))
    out.append(Job('C06-c/override', 'vf.props.c06:mk_override', {}, shape='H', bound='6 built-in keys', budget=600, weight=50))
    return out
