"""C20 - configuration layers override each other in the documented order."""
from vf.job import Job
from vf.util import fold, untraced, pick_int

META = {
    'rule': 'Symbolic presence bits for the overridable layers (global type, global syntax, call config) and symbolic values [S]; key and '
            'syntax are solver-chosen selectors [C] over pools that include keys defined only in the built-in defaults, also in a type '
            'default, also in a syntax default; oracle = value of the most specific layer that mentions the key.',
    'bounds': {
        'quick': '3 sections (options/snippets/variables) x 4-5 keys x 18 syntaxes (all known of both types + xhtml + 2 unknown names) x 2^3 '
                 'presence subsets (the two built-in layers vary with key and syntax: 2^5 combinations in all), values 1..2 chars; '
                 'expand() observation for selfClosingStyle, a snippet and a variable; sequences of two expand() calls with independent layer '
                 'assignments (first call: global[type] absent/xhtml/xml, the other layers of both calls absent/xhtml/xml, syntax html/xml, config/global passed, empty or omitted)',
        'thorough': 'same',
    },
    'outside_claim': ['keys outside the pools', 'non-dict layer values'],
}

MARKUP_SYN = ['html', 'xml', 'xsl', 'jsx', 'js', 'pug', 'slim', 'haml', 'vue', 'svelte', 'xhtml', 'zzz']
STYLE_SYN = ['css', 'sass', 'scss', 'less', 'sss', 'stylus', 'qqq']
KEYS = {
    'markup': {
        'options': ['output.selfClosingStyle', 'jsx.enabled', 'output.indent', 'markup.attributes', 'brand.new'],
        'snippets': ['a', 'tm', '!!!', 'zq9', 'bq'],
        'variables': ['lang', 'charset', 'newvar'],
    },
    'stylesheet': {
        'options': ['stylesheet.after', 'stylesheet.between', 'stylesheet.intUnit', 'brand.new'],
        'snippets': ['p', 'zq9', '@f'],
        'variables': ['lang', 'newvar'],
    },
}
SECTIONS = ['options', 'snippets', 'variables']


def builtin_value(typ, syntax, section, key):
    """most specific BUILT-IN layer that mentions the key (read from the tables; not via merged_data)"""
    from emmet import config as cfg
    missing = object()
    for layer in (cfg.SYNTAX_CONFIG.get(syntax, {}), cfg.SYNTAX_CONFIG.get(typ, {}), cfg.DEFAULT_CONFIG):
        table = layer.get(section)
        if table is not None and key in table:
            return table[key]
    return missing


def mk_resolved(typ, section):
    from emmet.config import Config
    from emmet import config as cfg
    import copy
    syns = MARKUP_SYN if typ == 'markup' else STYLE_SYN
    keys = KEYS[typ][section]

    def snapshot():
        with untraced():
            return repr((cfg.DEFAULT_CONFIG['variables'], sorted(cfg.DEFAULT_OPTIONS.items(), key=lambda kv: kv[0])[:10],
                         {k: sorted(v.keys()) for k, v in cfg.SYNTAX_CONFIG.items()},
                         len(cfg.SYNTAX_CONFIG['markup']['snippets']), len(cfg.SYNTAX_CONFIG['stylesheet']['snippets']),
                         cfg.SYNTAX_CONFIG['xml'], cfg.SYNTAX_CONFIG['stylus'], cfg.DEFAULT_OPTIONS['output.selfClosingStyle'],
                         cfg.DEFAULT_CONFIG['snippets']))

    def val_ok(v):
        return 1 <= len(v) <= 2 and bool(fold(v, lambda o: (o > 32) & (o < 127)))

    def harness(wrong):
        def h(ki: int, si: int, gt: bool, gs: bool, u: bool, vgt: str, vgs: str, vu: str, syn_in_user: bool):
            if not (0 <= ki < len(keys) and 0 <= si < len(syns)):
                return 'skip'
            for (bit, v) in ((gt, vgt), (gs, vgs), (u, vu)):
                if bit:
                    if not val_ok(v):
                        return 'skip'
                elif len(v) != 0:
                    return 'skip'
            key, syntax = keys[ki], syns[si]
            other = keys[(ki + 1) % len(keys)]
            glob = {}
            if gt:
                glob[typ] = {section: {key: vgt}}
            if gs:
                glob[syntax] = {section: {key: vgs}}
            user = {'type': typ, 'syntax': syntax}
            default_syntax = {'markup': 'html', 'stylesheet': 'css'}[typ]
            if not syn_in_user:
                if syntax != default_syntax:
                    return 'skip'
                del user['syntax']            # the default syntax of the type must be used
                if typ == 'markup':
                    del user['type']
            if u:
                user[section] = {key: vu}
            before = snapshot()
            with untraced():
                user_copy = copy.copy(user)
                glob_copy = {k: dict(v) for k, v in glob.items()}
            c = Config(user, glob)
            got = getattr(c, section)
            built = builtin_value(typ, syntax, section, key)
            if wrong:
                exp = vgt if gt else vgs if gs else vu if u else built
            else:
                exp = vu if u else vgs if gs else vgt if gt else built
            if isinstance(exp, object) and exp.__class__ is object:
                if key in got:
                    return 'key_appeared_from_nowhere'
            else:
                if key not in got:
                    return 'key_missing'
                if not (got[key] is exp or got[key] == exp):
                    return 'value_not_from_most_specific_layer'
            # a key no layer of the call mentions keeps its built-in value
            ob = builtin_value(typ, syntax, section, other)
            if ob.__class__ is object:
                if other in got:
                    return 'untouched_key_changed'
            elif other not in got or not (got[other] is ob or got[other] == ob):
                return 'untouched_key_changed'
            if c.type != typ or c.syntax != syntax:
                return 'type_or_syntax_lost'
            # nothing merged into built-in tables or caller dictionaries
            if snapshot() != before:
                return 'builtin_tables_modified'
            if set(user.keys()) != set(user_copy.keys()) or any([user[k] is not user_copy[k] for k in user_copy]):
                return 'caller_config_modified'
            for k in glob_copy:
                if set(glob[k].keys()) != set(glob_copy[k].keys()) or set(glob[k][section].keys()) != {key}:
                    return 'global_config_modified'
            return True
        return h
    w = dict(ki=0, si=1, gt=True, gs=False, u=False, vgt='g', vgs='', vu='', syn_in_user=True)
    wit = [w, dict(w, gs=True, vgs='s', u=True, vu='u', si=0), dict(w, gt=False, vgt='', ki=len(keys) - 1, si=len(syns) - 1)]
    return {'fn': harness(False), 'twin': harness(True), 'witnesses': wit,
            'assumptions': ['type %s, section %s; key from %r, syntax from %r (solver-chosen); presence of the key in global[type], '
                            'global[syntax] and the call config are free booleans, their values free 1..2 printable ASCII characters' % (
                                typ, section, keys, syns)],
            'functions': ['config.Config.__init__', 'config.merged_data', 'DEFAULT_CONFIG/DEFAULT_OPTIONS/SYNTAX_CONFIG/DEFAULT_SYNTAXES']}


def mk_observed(what):
    import emmet
    styles = ['html', 'xhtml', 'xml']
    snips = ['ea', 'eb', 'ec']
    closing = {'html': '<ex>', 'xhtml': '<ex />', 'xml': '<ex/>'}

    def harness(wrong):
        def h(si: int, gt: int, gs: int, u: int):
            if not (0 <= si < len(MARKUP_SYN) and -1 <= gt <= 2 and -1 <= gs <= 2 and -1 <= u <= 2):
                return 'skip'
            syntax = MARKUP_SYN[si]
            if syntax in ('pug', 'slim', 'haml'):
                return 'skip'        # observed through the HTML writer
            section = {'style': 'options', 'snippet': 'snippets', 'variable': 'variables'}[what]
            key = {'style': 'output.selfClosingStyle', 'snippet': 'zq9', 'variable': 'lang'}[what]
            dom = {'style': styles, 'snippet': snips, 'variable': snips}[what]
            glob = {}
            if gt >= 0:
                glob['markup'] = {section: {key: dom[gt]}}
            if gs >= 0:
                glob[syntax] = {section: {key: dom[gs]}}
            user = {'syntax': syntax}
            if syntax == 'html':
                user = {}                      # an empty call config must still see the global config
            if u >= 0:
                user.setdefault(section, {})[key] = dom[u]
            layers = [u, gs, gt]
            if wrong:
                layers = [gt, gs, u]
            eff = None
            for l in layers:
                if l >= 0:
                    eff = dom[l]
                    break
            if what == 'style':
                if eff is None:
                    b = builtin_value('markup', syntax, 'options', key)
                    eff = b
                out = emmet.expand('ex/', user, glob)
                return True if out == closing[eff] else 'expand_does_not_use_effective_option'
            if what == 'snippet':
                out = emmet.expand('zq9', user, glob)
                exp = '<zq9></zq9>' if eff is None else '<' + eff + '></' + eff + '>'
                return True if out == exp else 'expand_does_not_use_effective_snippet'
            out = emmet.expand('ex{${lang}}', user, glob)
            exp = '<ex>' + ('en' if eff is None else eff) + '</ex>'
            return True if out == exp else 'expand_does_not_use_effective_variable'
        return h
    return {'fn': harness(False), 'twin': harness(True), 'witnesses': [dict(si=0, gt=1, gs=-1, u=-1), dict(si=1, gt=0, gs=2, u=1)],
            'assumptions': ['%s observed through expand(abbr, config, global_config); each of the 3 overridable layers absent (-1) or one '
                            'of 3 values; syntax from %r' % (what, MARKUP_SYN)],
            'functions': ['emmet.expand (Config construction from user and global config)', 'config.merged_data']}


def mk_sequence(gt1):
    """Two expand() calls one after the other, each with its own layer assignment: the second call must see exactly its own layers
    (a layer mentioned only by the first call must not survive into the second)."""
    import emmet
    styles = ['xhtml', 'xml']
    closing = {'html': '<ex>', 'xhtml': '<ex />', 'xml': '<ex/>'}
    syns = ['html', 'xml']
    key = 'output.selfClosingStyle'

    def one(si, gt, gs, u, form):
        syntax = syns[si]
        glob = {}
        if gt >= 0:
            glob['markup'] = {'options': {key: styles[gt]}}
        if gs >= 0:
            glob[syntax] = {'options': {key: styles[gs]}}
        user = {} if syntax == 'html' else {'syntax': syntax}
        if u >= 0:
            user['options'] = {key: styles[u]}
        eff = None
        for l in (u, gs, gt):
            if l >= 0:
                eff = styles[l]
                break
        if eff is None:
            eff = builtin_value('markup', syntax, 'options', key)
        with untraced():
            if form == 2 and not user and not glob:
                out = emmet.expand('ex/')
            elif form >= 1 and not glob:
                out = emmet.expand('ex/', user)
            else:
                out = emmet.expand('ex/', user, glob)
        return out, closing[eff]

    def harness(wrong):
        def h(s1: int, gs1: int, u1: int, f1: int, s2: int, gt2: int, gs2: int, u2: int, f2: int):
            for x in (gs1, u1, gt2, gs2, u2):
                if not (-1 <= x <= 1):
                    return 'skip'
            if not (0 <= s1 <= 1 and 0 <= s2 <= 1 and 0 <= f1 <= 2 and 0 <= f2 <= 2):
                return 'skip'
            # the form only matters when the global config (and the call config) is empty: keep one representative otherwise
            if f1 and (gt1 >= 0 or gs1 >= 0):
                return 'skip'
            if f2 and (gt2 >= 0 or gs2 >= 0):
                return 'skip'
            if f1 == 2 and (u1 >= 0 or s1 != 0):
                return 'skip'
            if f2 == 2 and (u2 >= 0 or s2 != 0):
                return 'skip'
            gs1, u1, gt2, gs2, u2 = [pick_int(x, -1, 1) for x in (gs1, u1, gt2, gs2, u2)]
            s1, s2 = pick_int(s1, 0, 1), pick_int(s2, 0, 1)
            f1, f2 = pick_int(f1, 0, 2), pick_int(f2, 0, 2)
            out1, exp1 = one(s1, gt1, gs1, u1, f1)
            if out1 != exp1:
                return 'first_call_wrong_layer'
            out2, exp2 = one(s2, gt2, gs2, u2, f2)
            if wrong:
                exp2 = exp2 + ' '
            if out2 != exp2:
                return 'second_call_sees_layers_of_the_first'
            return True
        return h
    z = dict(s1=0, gs1=-1, u1=-1, f1=0, s2=0, gt2=-1, gs2=-1, u2=-1, f2=0)
    return {'fn': harness(False), 'twin': harness(True), 'witnesses': [z, dict(z, s2=1, gt2=0, u2=1), dict(z, f2=2), dict(z, f1=1, f2=1, u1=0)],
            'assumptions': ['two calls expand("ex/", config, global) in one interpreter; global[markup] of the first call is %d (-1 absent, else '
                            'xhtml/xml); every other layer of both calls absent, xhtml or xml (solver-chosen); syntax html or xml; an empty '
                            'global config is passed as {}, omitted, or config and global are both omitted; the calls are concrete per path and run '
                            'outside the tracer' % gt1],
            'functions': ['emmet.expand (default arguments, Config construction)', 'config.Config.__init__', 'config.merged_data']}


def jobs(tier):
    out = []
    for typ in ('markup', 'stylesheet'):
        for section in SECTIONS:
            out.append(Job('C20-a/resolved/%s/%s' % (typ, section), 'vf.props.c20:mk_resolved', dict(typ=typ, section=section),
                           shape='H', bound='keys x syntaxes x 2^3 subsets', budget=2400, weight=500))
    for what in ('style', 'snippet', 'variable'):
        out.append(Job('C20-b/observed/%s' % what, 'vf.props.c20:mk_observed', dict(what=what), shape='H',
                       bound='4^3 layer assignments x syntaxes', budget=2400, weight=400))
    for gt1 in (-1, 0, 1):
        out.append(Job('C20-c/sequence/gt1=%d' % gt1, 'vf.props.c20:mk_sequence', dict(gt1=gt1), shape='H',
                       bound='2 calls x layer assignments', budget=2400, weight=450))
    return out
