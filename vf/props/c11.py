"""C11 - extract finds exactly the abbreviation that ends at the caret."""
from vf.job import Job
from vf.props.common import ascii_partitions, in_partition

META = {
    'rule': 'C11-a: W-harness, every ASCII line x every integer caret x option set against the consistency '
            'clauses; C11-b: template L+A+R with concrete valid abbreviation A and symbolic contexts L, R.',
    'bounds': {
        'quick': 'C11-a: lines len<=2 for type x lookAhead without prefix (len<=3 for the default options), len<=1 '
                 'with a symbolic 1-char prefix; C11-b: 24 generated abbreviations x left context (empty | 1 symbolic '
                 'blank | <tag> with symbolic 1-letter name), lookAhead on, right context empty (or 1 symbolic char '
                 'after an empty left context)',
        'thorough': 'C11-a: len<=3 for the 4 option sets without prefix, len<=2 with symbolic prefix; C11-b: the whole '
                    'family (about 100 abbreviations) x left context (empty | 1-2 symbolic chars ending in a blank | '
                    '<tag>) x right context (empty | 1 symbolic char) x lookAhead on/off',
    },
    'outside_claim': ['lines longer than the bound in the consistency part', 'code points >= 128 in symbolic context',
                      'symbolic prefixes longer than one character (three concrete multi-character prefixes are explored)', 'abbreviations outside the generated family'],
}

CLOSERS_M = ')]}'
CLOSERS_S = ')'


def is_quote(c):
    return c == '"' or c == "'"


def mk_consistency(L, lo, hi, typ, look_ahead, with_prefix):
    from emmet.extract_abbreviation import extract_abbreviation

    def is_closer(c):
        return c == ')' or (typ == 'markup' and (c == ']' or c == '}'))

    def expected_end(line, pos):
        n = len(line)
        pos = min(n, max(0, pos))
        if look_ahead:
            if pos < n and is_quote(line[pos]):
                pos += 1
            while pos < n and is_closer(line[pos]):
                pos += 1
        return pos

    def check(line, pos, prefix):
        opt = {'type': typ, 'lookAhead': look_ahead, 'prefix': prefix}
        r = extract_abbreviation(line, pos, opt)
        if r is None:
            return True
        n = len(line)
        if not (0 <= r.start <= r.location <= r.end <= n):
            return 'offsets_out_of_order'
        if r.abbreviation != line[r.location:r.end]:
            return 'abbreviation_is_not_the_slice'
        if len(r.abbreviation) > 0:
            c = r.abbreviation[0]
            if c == '>' or c == '+' or c == '^' or c == '*':
                return 'dangling_leading_operator'
        if r.end != expected_end(line, pos):
            return 'end_not_at_lookahead_position'
        if prefix:
            if line[r.start:r.start + len(prefix)] != prefix:
                return 'prefix_not_at_start'
            if r.start + len(prefix) > r.location:
                return 'abbreviation_overlaps_prefix'
        else:
            if r.start != r.location:
                return 'start_differs_without_prefix'
        return True

    if with_prefix:
        def h(line: str, pos: int, prefix: str):
            if not in_partition(line, L, lo, hi):
                return 'skip'
            if len(prefix) != 1 or ord(prefix[0]) >= 128:
                return 'skip'
            return check(line, pos, prefix)

        def twin(line: str, pos: int, prefix: str):
            if not in_partition(line, L, lo, hi) or len(prefix) != 1 or ord(prefix[0]) >= 128:
                return 'skip'
            r = extract_abbreviation(line, pos, {'type': typ, 'lookAhead': look_ahead, 'prefix': prefix})
            return 'twin' if r is not None else True
        wit = [{'line': w, 'pos': p, 'prefix': '<'} for (w, p) in [('<a', 2), ('<ab', 3), ('a', 1)]
               if len(w) == L and lo <= ord(w[0]) < hi]
        tw = twin if L >= 2 else None
    else:
        def h(line: str, pos: int):
            if not in_partition(line, L, lo, hi):
                return 'skip'
            return check(line, pos, '')

        def twin(line: str, pos: int):
            if not in_partition(line, L, lo, hi):
                return 'skip'
            r = extract_abbreviation(line, pos, {'type': typ, 'lookAhead': look_ahead})
            return 'twin' if r is not None else True
        wit = [{'line': w, 'pos': p} for (w, p) in [('', 0), ('a', 1), ('a>b', 3), ('a b', 3), ('a[', 2), ('>a', 2)]
               if len(w) == L and (not w or lo <= ord(w[0]) < hi)]
        tw = twin if L >= 1 and lo <= ord('a') < hi else None
    return {'fn': h, 'twin': tw, 'witnesses': wit, 'check': check,
            'assumptions': ['line ASCII, len==%d, ord(line[0]) in [%d,%d); pos any integer; type=%s lookAhead=%s '
                            'prefix=%s' % (L, lo, hi, typ, look_ahead, 'one symbolic ASCII char' if with_prefix else 'none')],
            'functions': ['emmet.extract_abbreviation.extract_abbreviation', 'offset_past_auto_closed',
                          'get_start_offset', 'consume_pair', 'consume_list', 'is_html.*']}


# ------------------------------------------------------------------ C11-b round trip
def abbreviations(limit):
    """Deterministic family of valid markup abbreviations (strings)."""
    names = ['a', 'li', 'x1', 'my-tag', 'ns:el']
    decos = ['', '.c', '#i', '.c1.c2', '[t=x]', '[t="x y"]', "[a='1' b]", '{txt}', '{a b}', '*3', '.c*2', '$$', '[t=x]*3',
             '{$}', '[d.]', '/', '.c$@-2', '{a>b}', '[t=x>y]', '#i.c[t]{z}*2']
    elems = []
    for i, d in enumerate(decos):
        elems.append(names[i % len(names)] + d)
    elems += ['.c', '#i', '[t=x]', '{txt}']
    out = list(elems)
    ops = ['>', '+', '^', '>', '+']
    k = 0
    for i in range(len(elems)):
        for j in (1, 7):
            a, b = elems[i], elems[(i + j) % len(elems)]
            op = ops[k % len(ops)]
            k += 1
            if op == '^':
                out.append('p>' + a + '^' + b)
            elif a.endswith('/'):
                out.append(a + '+' + b)
            else:
                out.append(a + op + b)
    for i in range(0, len(elems), 3):
        a, b, c = elems[i], elems[(i + 2) % len(elems)], elems[(i + 5) % len(elems)]
        if a.endswith('/'):
            a = 'q'
        out.append('(' + a + '>' + b + ')*2+' + c)
        out.append(a + '>(' + b + '+' + c + ')')
        out.append('ul>' + b + '*3>' + c)
    out.append('li[title=x]*3>a')
    # bracket and quote characters inside attribute values and text
    out += ['a[onclick="f(1, 2)"]', 'td[title="a (b c) d"]*2', 'p{a (b c) d}', 'ea{(}', 'ea{)}+eb', 'ea{]}', 'ea[t="x]y"]>eb',
            'div[style="color: rgb(0, 0, 0)"]>p', "a[href=\"javascript:alert('x')\"]",
            'x[a="("]', 'x[a=")"]', 'x[a="["]', "x[a='{']", 'x{\\}}']
    # abbreviations that BEGIN with a bracketed part (text node, group, nameless element) followed by an operator
    lead = ['{y}>ea', '(ea+eb)>ec', '[t=x]>ea', '{a(b)}+ea', '(ea>eb)+ec>ed', '{y}*2>ea']
    out = lead + out
    out = list(dict.fromkeys(out))
    special = [a for a in out if '(' in a.split('[', 1)[-1] or '"' in a or '{(' in a or '{)' in a or '{]' in a or "'" in a or '\\' in a]
    special = lead + [a for a in special if a not in lead]
    out = special + [a for a in out if a not in special]
    return out[:limit]


def mk_roundtrip(abbr, left, right, look_ahead):
    """left in {'none','sym1','sym2','sym3','tag'}; right in {'none','sym'}"""
    from emmet.extract_abbreviation import extract_abbreviation
    opt = {'lookAhead': look_ahead}

    def blank(c):
        return c == ' ' or c == '\t'

    def run(Lc, Rc):
        line = Lc + abbr + Rc
        pos = len(Lc) + len(abbr)
        r = extract_abbreviation(line, pos, opt)
        if r is None:
            return 'nothing_extracted:' + abbr
        if r.abbreviation != abbr:
            return 'wrong_abbreviation:' + abbr
        if r.location != len(Lc) or r.start != len(Lc) or r.end != pos:
            return 'wrong_offsets:' + abbr
        return True

    def right_ok(Rc):
        # right context must not be something look-ahead is allowed to swallow
        if len(Rc) == 0:
            return True
        c = Rc[0]
        if ord(c) >= 128:
            return False
        if look_ahead and (is_quote(c) or c == ')' or c == ']' or c == '}'):
            return False
        return True

    nleft = {'none': 0, 'sym1': 1, 'sym2': 2, 'sym3': 3}.get(left)
    if left == 'tags':
        TAGS = ['<a href="x" title=y>', '<img src=a/>', '</p>', '<b class="c d" e>', '<x:y z=\'1\'>', '<div a={x>y}>',
                'text <em>', '<br />']

        def h(name: str, Rc: str):
            # `name` selects one of the concrete complete tags
            if len(name) != 1 or not ('0' <= name <= '7'):
                return 'skip'
            if len(Rc) != (1 if right == 'sym' else 0) or not right_ok(Rc):
                return 'skip'
            return run(TAGS[ord(name) - 48], Rc)
        wit = [{'name': '0', 'Rc': 'z' if right == 'sym' else ''}]
    elif left == 'tag':
        def h(name: str, Rc: str):
            if len(name) != 1 or not ('a' <= name <= 'z' or 'A' <= name <= 'Z'):
                return 'skip'
            if len(Rc) != (1 if right == 'sym' else 0) or not right_ok(Rc):
                return 'skip'
            return run('<' + name + '>', Rc)
        wit = [{'name': 'p', 'Rc': 'z' if right == 'sym' else ''}]
    else:
        def h(Lc: str, Rc: str):
            if len(Lc) != nleft or not all([ord(c) < 128 for c in Lc]):
                return 'skip'
            if nleft and not blank(Lc[-1]):
                return 'skip'
            if len(Rc) != (1 if right == 'sym' else 0) or not right_ok(Rc):
                return 'skip'
            return run(Lc, Rc)
        wit = [{'Lc': ('xy '[-nleft:] if nleft else ''), 'Rc': 'z' if right == 'sym' else ''}]

    def twin(**kw):
        r = h(**kw)
        if r == 'skip':
            return r
        return 'twin'
    import inspect
    twin.__signature__ = inspect.signature(h)
    twin.__annotations__ = dict(h.__annotations__)
    return {'fn': h, 'twin': None, 'witnesses': wit,
            'assumptions': ['abbreviation %r is concrete; left context: %s; right context: %s (not a quote/closing '
                            'bracket when lookAhead); lookAhead=%s' % (abbr, left, right, look_ahead)],
            'functions': ['emmet.extract_abbreviation.extract_abbreviation', 'is_html.is_html']}


def mk_roundtrip_family(part, nparts, limit, left, right, look_ahead):
    """One job = a slice of the abbreviation family; the abbreviation index is a solver-chosen selector."""
    fam = [a for i, a in enumerate(abbreviations(limit)) if i % nparts == part]
    made = [mk_roundtrip(a, left, right, look_ahead) for a in fam]
    fns = [m['fn'] for m in made]
    if left in ('tag', 'tags'):
        def h(k: int, name: str, Rc: str):
            if not (0 <= k < len(fns)):
                return 'skip'
            return fns[k](name, Rc)

        def twin(k: int, name: str, Rc: str):
            r = h(k, name, Rc)
            return r if r == 'skip' else 'twin'
    else:
        def h(k: int, Lc: str, Rc: str):
            if not (0 <= k < len(fns)):
                return 'skip'
            return fns[k](Lc, Rc)

        def twin(k: int, Lc: str, Rc: str):
            r = h(k, Lc, Rc)
            return r if r == 'skip' else 'twin'
    wit = []
    for i, m in enumerate(made):
        w = dict(m['witnesses'][0])
        w['k'] = i
        wit.append(w)
    return {'fn': h, 'twin': twin, 'witnesses': wit,
            'assumptions': ['abbreviation = family[k] for a solver-chosen k (concrete strings: %s ...); left context: %s; '
                            'right context: %s (not a quote/closing bracket when lookAhead); lookAhead=%s' % (
                                ', '.join(fam[:4]), left, right, look_ahead)],
            'functions': ['emmet.extract_abbreviation.extract_abbreviation', 'is_html.is_html',
                          'consume_attribute_with_unquoted_value', 'consume_quoted']}


def mk_prefix2(pfx, n):
    """multi-character prefix, symbolic line"""
    made = mk_consistency(0, 0, 128, 'markup', True, False)
    check = made['check']

    def h(line: str, pos: int):
        if len(line) > n or not all_ascii(line):
            return 'skip'
        return check(line, pos, pfx)

    def twin(line: str, pos: int):
        if len(line) > n or not all_ascii(line):
            return 'skip'
        from emmet.extract_abbreviation import extract_abbreviation
        return 'twin' if extract_abbreviation(line, pos, {'prefix': pfx}) is not None else True
    # with len(line) <= len(prefix) nothing can follow the prefix: every result is None and a twin that waits for a result
    # cannot be refuted - the job then only checks that nothing is invented (no twin)
    return {'fn': h, 'twin': twin if n > len(pfx) else None, 'witnesses': [{'line': (pfx + 'a')[:n], 'pos': n}, {'line': (pfx[1:] + 'ab')[:n], 'pos': n}],
            'assumptions': ['prefix %r; line any ASCII string of <=%d characters; pos any integer' % (pfx, n)],
            'functions': ['extract_abbreviation.get_start_offset', 'consume_list', 'consume_pair']}


OPEN = ['a[b="', 'p{x', '(a', 'a[b=\'c', 'ul>(li[t={x', 'a[b]', 'q{{y', '']


def mk_lookahead(oi, n, typ):
    made = mk_consistency(0, 0, 128, typ, True, False)   # reuse the consistency oracle
    check = made['check']
    head = OPEN[oi]

    def h(R: str):
        if len(R) > n or not all_ascii(R):
            return 'skip'
        return check(head + R, len(head), '')

    def twin(R: str):
        if len(R) > n or not all_ascii(R):
            return 'skip'
        from emmet.extract_abbreviation import extract_abbreviation
        r = extract_abbreviation(head + R, len(head), {'type': typ})
        return 'twin' if r is not None else True
    return {'fn': h, 'twin': twin if head else None, 'witnesses': [{'R': '"]'[:n]}, {'R': ''}, {'R': '})'[:n]}],
            'assumptions': ['line = %r + R with the caret between them; R any ASCII string of <=%d characters; type=%s, '
                            'lookAhead on' % (head, n, typ)],
            'functions': ['emmet.extract_abbreviation.offset_past_auto_closed', 'extract_abbreviation']}


def all_ascii(s):
    ok = True
    for c in s:
        ok = ok & (ord(c) < 128)
    return True if ok else False


def jobs(tier):
    q = tier == 'quick'
    out = []
    optsets = [(t, la, wp) for t in ('markup', 'stylesheet') for la in (True, False) for wp in (False, True)]
    for (t, la, wp) in optsets:
        if q:
            n = 1 if wp else 2
            if (t, la, wp) == ('markup', True, False):
                n = 3
        else:
            n = 2 if wp else 3   # a symbolic prefix multiplies paths; kept at len<=2
        for (L, lo, hi) in ascii_partitions(n, split_from=2 if wp else 3):
            out.append(Job('C11-a/%s,la=%d,prefix=%d/len=%d,c0=[%d,%d)' % (t, la, wp, L, lo, hi),
                           'vf.props.c11:mk_consistency',
                           dict(L=L, lo=lo, hi=hi, typ=t, look_ahead=la, with_prefix=wp),
                           bound='ASCII len=%d, any pos' % L, budget=600 if q else 2400, weight=40 ** L))
    for oi in range(len(OPEN)):
        for typ in (('markup',) if q else ('markup', 'stylesheet')):
            out.append(Job('C11-a/lookahead/%s/open%d' % (typ, oi), 'vf.props.c11:mk_lookahead',
                           dict(oi=oi, n=3 if q else 4, typ=typ), shape='H', bound='right context <=%d chars' % (3 if q else 4),
                           budget=900 if q else 3000, weight=3000))
    for pfx in ('>>', '<%', '!!!'):
        out.append(Job('C11-a/prefix2/%s' % pfx, 'vf.props.c11:mk_prefix2', dict(pfx=pfx, n=3 if q else 4), shape='W',
                       bound='line <=%d chars' % (3 if q else 4), budget=1500 if q else 6000, weight=5000))
    limit = 54 if q else 156
    nparts = 6 if q else 14
    if q:
        combos = [('none', 'none', True), ('none', 'sym', True), ('sym1', 'none', True), ('tag', 'none', True),
                  ('tags', 'none', True)]
    else:
        combos = [(l, r, la) for l in ('none', 'sym1', 'sym2', 'tag', 'tags') for r in ('none', 'sym') for la in (True, False)]
    for (left, right, la) in combos:
        for p in range(nparts):
            out.append(Job('C11-b/roundtrip/left=%s,right=%s,la=%d/part%d' % (left, right, la, p),
                           'vf.props.c11:mk_roundtrip_family',
                           dict(part=p, nparts=nparts, limit=limit, left=left, right=right, look_ahead=la),
                           shape='H', bound='%d abbreviations' % limit, budget=600 if q else 2400,
                           weight={'none': 1, 'sym1': 50, 'tag': 60, 'tags': 70, 'sym2': 2000, 'sym3': 50000}[left]))
    return out
