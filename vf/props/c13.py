"""C13 - tabstops are numbered in document order and reported positions are exact."""
from vf.job import Job
from vf.util import fold, untraced

META = {
    'rule': 'C13-a (I): one OutputStream operation from a symbolic pre-state (offset/line/column/level arbitrary ints) with '
            'recording callbacks; C13-b (H): templates through expand() with recording callbacks; every invocation\'s offset/line/'
            'column is compared with where its returned string lies in the final result.',
    'bounds': {
        'quick': 'step: push_string with text <=3 chars (line breaks included), push_newline, push_indent, push_field from any '
                 'integer pre-state, 3x3x3 newline/baseIndent/indent strings, callbacks that lengthen their text; end-to-end: 16 '
                 'markup templates x 7 syntaxes + 6 stylesheet abbreviations, symbolic payload <=2 chars (line breaks included), '
                 'repeat 1..3',
        'thorough': 'payload <=3 chars, push_string text <=4 chars',
    },
    'outside_claim': ['a text callback that alters newline strings themselves (column is defined relative to the pushed newline string)',
                      'newline/indent/baseIndent strings outside the 27 combinations', 'abbreviations outside the template family'],
    'stubs': ['output.text / output.field are recording callbacks supplied by the harness (caller-supplied in production too)',
              'tokenization of the concrete template string runs outside the tracer'],
}

NLS = ['\n', '\r\n', 'NL']
BASES = ['', ' ', 'bb']
INDS = ['\t', '', '  ']


def mk_step(op, nlfix, bsfix=None):
    from emmet.output_stream import OutputStream

    def harness(wrong):
        def h(offset: int, line: int, column: int, level: int, nl: int, bs: int, ind: int, text: str, arg: int,
              grow: bool):
            if not (nl == nlfix and 0 <= bs < 3 and 0 <= ind < 3):
                return 'skip'
            if bsfix is not None and bs != bsfix:
                return 'skip'
            if not (-1 <= level <= 3):
                return 'skip'
            # text never contains the letters of the `NL` newline string, so a pushed piece equals the
            # newline string only when push_newline() pushed it
            if len(text) > 3 or not fold(text, lambda o: (o < 256) & (o != 78) & (o != 76)):
                return 'skip'
            newline, base, indent = NLS[nl], BASES[bs], INDS[ind]
            nlbase = newline + base
            calls = []

            def text_cb(t, offset=None, line=None, column=None):
                ret = t
                if grow and not (t == nlbase):
                    ret = t + 'Z'
                calls.append((offset, line, column, ret, t == nlbase))
                return ret

            def field_cb(index, placeholder, offset=None, line=None, column=None):
                ret = '${' + placeholder + '}' if grow else placeholder
                calls.append((offset, line, column, ret, False))
                return ret
            out = OutputStream({'output.text': text_cb, 'output.field': field_cb, 'output.newline': newline,
                                'output.baseIndent': base, 'output.indent': indent})
            out.offset, out.line, out.column, out.level = offset, line, column, level
            if op == 'push_string':
                if arg != 0:
                    return 'skip'
                out.push_string(text)
            elif op == 'push_newline':
                if len(text) != 0 or not (-2 <= arg <= 4):
                    return 'skip'
                out.push_newline(None if arg == -2 else True if arg == -1 else arg)
            elif op == 'push_indent':
                if len(text) != 0 or not (-2 <= arg <= 4):
                    return 'skip'
                out.push_indent(None if arg == -2 else arg)
            elif op == 'push_field':
                if not (0 <= arg <= 9):
                    return 'skip'
                out.push_field(arg, text)
            else:
                if arg != 0 or not fold(text, lambda o: ((o < 10) | (o > 13)) & ((o < 28) | (o > 30)) & (o != 133)):
                    return 'skip'      # push() is documented as "without newline processing"
                out.push(text)
            # replay the recorded calls against the positions they claim
            o, ln, col = offset, line, column
            for (co, cl, cc, ret, is_nl) in calls:
                if co != o + (1 if wrong else 0):
                    return 'offset_given_differs_from_position'
                if cl != ln or cc != col:
                    return 'line_column_given_differ_from_position'
                o += len(ret)
                if is_nl:
                    ln += 1
                    col = len(base)
                else:
                    col += len(ret)
            if out.offset != o or out.line != ln or out.column != col:
                return 'post_state_inconsistent'
            if len(out.value) != o - offset:
                return 'value_length_differs_from_offset_delta'
            return True
        return h
    wit = {'push_string': [dict(text='a\nb', arg=0), dict(text='\r\n', arg=0), dict(text='', arg=0)],
           'push_newline': [dict(text='', arg=-1), dict(text='', arg=2), dict(text='', arg=-2)],
           'push_indent': [dict(text='', arg=-2), dict(text='', arg=3)],
           'push_field': [dict(text='ph', arg=1), dict(text='', arg=0)],
           'push': [dict(text='abc', arg=0)]}[op]
    wit = [dict(dict(offset=5, line=1, column=2, level=1, nl=nlfix, bs=2 if bsfix is None else bsfix, ind=0, grow=True), **w) for w in wit]
    return {'fn': harness(False), 'twin': harness(True), 'witnesses': wit,
            'assumptions': ['operation %s from a pre-state with arbitrary integer offset, line, column and level in -1..3; newline=%r, '
                            'baseIndent/indent from 3 strings each; text <=3 code points <256 without the letters N, L (line breaks '
                            'allowed, except for push()); callbacks optionally lengthen what they return, except the newline '
                            'string' % (op, NLS[nlfix])],
            'functions': ['OutputStream._push', 'push', 'push_string', 'push_newline', 'push_indent', 'push_field']}


MARKUP = ['ex[a]', 'ex[a b]>ey', 'ex>ey[a]+ez', 'img', 'a', 'input[type]', 'ex[a=${1} b=${2}]', 'ex[a=${2} b=${1}]',
          'ex{${1:p} ${3}}+ey[t]', 'ul>li*901[t]', 'ex>br/+ey', 'ex{QZ1}>ey[t]', 'ex>ey{QZ1}+ez', 'ex[t=QZ1]>ey', 'ex>(ey[a]>ez)*901',
          'ex>{QZ1}+ey', 'ex{${2:b} ${1:a}}+ey[t]', 'ex[t="${1:p} ${0}"]', 'ex{${3} ${1} ${2}}>ey[a b]', 'ex[t=""]>ey', "ex[t='' u]",
          # explicit fields in non-ascending order AFTER earlier tabstops and BEFORE later ones
          'ex[a]{${2:b} ${1:a}}+ey[t]', 'ex[a b]>ey{${3} ${1} ${2}}+ez[c]', 'ex[a]>ey[b]{${2:q} ${1:p}}>ez[c d]',
          'ex[a]>ey[t="${4:x} ${2:y}" u]+ez',
          # text around the child-insertion field spans several lines; children cause a line change
          'ex>{[${0}]\nsecond\nthird ${2:t}}>ey*901^ew>ez[a]']
# expected tabstop indices for templates without explicit fields (r = repeat count); None = only generic checks
IMPLICIT = {
    'ex[a]': lambda r: [1, 2], 'ex[a b]>ey': lambda r: [1, 2, 3], 'ex>ey[a]+ez': lambda r: [1, 2, 3],
    'img': lambda r: [1, 2], 'a': lambda r: [1, 2], 'input[type]': lambda r: [1],
    'ul>li*901[t]': lambda r: list(range(1, 2 * r + 1)), 'ex>br/+ey': lambda r: [1],
    'ex>(ey[a]>ez)*901': lambda r: list(range(1, 2 * r + 1)),
    'ex[t=""]>ey': lambda r: [1, 2], "ex[t='' u]": lambda r: [1, 2, 3],
}
CSS = ['p10', 'p', 'p+m', 'bd', 'c#f.5', 'm10-20+p', 'cnt"x\ny"+p10+m', "ff'a\nb\nc'+p"]


def payload_ok(t, lmax):
    if len(t) > lmax:
        return False
    return True if fold(t, lambda o: (o < 256) & (o != 36) & (o != 60) & (o != 2)) else False


def check_records(result, recs, newline, base):
    """recs: (offset, line, column, returned, is_newline_piece) in call order.  Every push goes through one of the two
    callbacks, so the final result is the concatenation of the returned strings: the position of the k-th returned
    string is the prefix sum of the earlier lengths (no search in symbolic strings needed)."""
    o = ln = col = 0
    for (co, cl, cc, ret, is_nl) in recs:
        if co != o:
            return 'offset_given_differs_from_position'
        if cl != ln:
            return 'line_differs'
        if cc != col:
            return 'column_differs'
        o += len(ret)
        if is_nl:
            ln += 1
            col = len(base)
        else:
            col += len(ret)
    if len(result) != o:
        return 'result_is_not_the_concatenation_of_returned_strings'
    return True


def mk_end_to_end(kind, ti, syntax, lmax):
    import emmet
    from vf.pipe import expand_injected, make_config, make_css_config, set_literal, set_repeat
    abbr = (MARKUP if kind == 'markup' else CSS)[ti]
    uses_r, uses_t = '*901' in abbr, 'QZ1' in abbr
    NLX = '\x02'

    def harness(wrong):
        def h(r: int, t: str, bs: int, ind: int, fmt: bool):
            if not (0 <= bs < 3 and 0 <= ind < 3):
                return 'skip'
            if uses_r:
                if not (1 <= r <= 3):
                    return 'skip'
            elif r != 1:
                return 'skip'
            if uses_t:
                if not payload_ok(t, lmax) or len(t) == 0:
                    return 'skip'
            elif len(t) != 0:
                return 'skip'
            recs, fields, raw = [], [], []

            nlbase = NLX + BASES[bs]

            def text_cb(s, offset=None, line=None, column=None):
                with untraced():
                    conc = type(s) is str
                is_nl = conc and s == nlbase      # payloads never contain the sentinel, symbolic pieces are payload
                if conc and not is_nl and ('\n' in s or '\r' in s):
                    raw.append(s)                 # a line break that did not go through output.newline: line/column lose track of it
                recs.append((offset, line, column, s, is_nl))
                return s

            def field_cb(index, placeholder, offset=None, line=None, column=None):
                ret = '[' + str(index) + '|' + placeholder + ']'
                recs.append((offset, line, column, ret, False))
                fields.append(index)
                return ret
            opts = {'output.text': text_cb, 'output.field': field_cb, 'output.newline': NLX, 'output.baseIndent': BASES[bs],
                    'output.indent': INDS[ind], 'output.format': fmt}
            user = {'syntax': syntax, 'options': opts}
            if kind == 'css':
                user['type'] = 'stylesheet'
                result = emmet.expand(abbr, make_css_config(user))
            else:
                def edit(toks):
                    if uses_r:
                        set_repeat(toks, 901, r)
                    if uses_t:
                        set_literal(toks, 'QZ1', t)
                result = expand_injected(abbr, make_config(user), edit)
            if wrong and recs:
                recs[-1] = (recs[-1][0] + 1,) + recs[-1][1:]
            res = check_records(result, recs, NLX, BASES[bs])
            if res is not True:
                return res
            if raw:
                return 'line_break_bypasses_output_newline_so_line_and_column_are_off'
            if kind == 'markup':
                if len(set(fields)) != len(fields):
                    return 'tabstop_numbers_collide'
                if abbr in IMPLICIT and fields != IMPLICIT[abbr](r):
                    return 'tabstops_not_1_2_3_in_document_order'
                if abbr in IMPLICIT and fields != sorted(fields):
                    return 'tabstops_not_in_document_order'
            return True
        return h
    w = dict(r=2 if uses_r else 1, t='x' if uses_t else '', bs=2, ind=0, fmt=True)
    wit = [w, dict(w, fmt=False, bs=0)]
    if uses_t:
        wit.append(dict(w, t='a\nb'[:lmax]))
    return {'fn': harness(False), 'twin': harness(True), 'witnesses': wit,
            'assumptions': ['%s abbreviation %s, syntax %s; newline is the sentinel \\x02, baseIndent/indent from 3 strings each, '
                            'format on/off; repeat 1..3; payload 1..%d code points <256 (line breaks allowed; no `$`, `<`, \\x02)' % (
                                kind, abbr, syntax, lmax)],
            'functions': ['OutputStream.*', 'format.utils.push_tokens', 'format.walk.WalkState.field', 'format.html.push_attribute/'
                          'element', 'format.indent_format.push_value/push_secondary_attributes', 'stylesheet.format.*']}


def jobs(tier):
    q = tier == 'quick'
    out = []
    for op in ('push_string', 'push_newline', 'push_indent', 'push_field', 'push'):
        for nlfix in range(3):
            for bsfix in (range(3) if op == 'push_string' else [None]):
                out.append(Job('C13-a/step/%s/nl=%d%s' % (op, nlfix, '' if bsfix is None else ',bs=%d' % bsfix),
                               'vf.props.c13:mk_step', dict(op=op, nlfix=nlfix, bsfix=bsfix), shape='I',
                               bound='text<=3', budget=1500, weight=500 if op == 'push_string' else 50))
    lmax = 2 if q else 3
    msyn = ['html', 'xml', 'jsx', 'vue', 'pug', 'haml', 'slim']
    for ti in range(len(MARKUP)):
        for syn in (msyn if not q else ['html', msyn[1 + ti % 3], msyn[4 + ti % 3]]):
            out.append(Job('C13-b/markup/%s/t%02d' % (syn, ti), 'vf.props.c13:mk_end_to_end',
                           dict(kind='markup', ti=ti, syntax=syn, lmax=lmax), shape='H', bound='template',
                           budget=900 if q else 3000, weight=60))
    for ti in range(len(CSS)):
        for syn in (['css', 'stylus'] if q else ['css', 'scss', 'sass', 'less', 'stylus']):
            out.append(Job('C13-b/css/%s/t%02d' % (syn, ti), 'vf.props.c13:mk_end_to_end',
                           dict(kind='css', ti=ti, syntax=syn, lmax=lmax), shape='H', bound='template', budget=600, weight=30))
    return out
