"""C03 - attributes are carried over, merged and quoted as written."""
from vf.job import Job
from vf.util import lb_free, ascii_only, none_of

META = {
    'rule': 'C03-a: one element with K attribute mentions; mention kind and name are solver-decided selectors [C], '
            'values are symbolic strings [S] injected at the token boundary; options are job parameters. Oracle = '
            'reference merge written from the property, serialised and compared as one string. C03-b: the value goes '
            'through the real tokenizer character by character.',
    'bounds': {
        'quick': 'K<=2 mentions over 12 kinds x 5 names, values 1..2 chars (code points <256, no line breaks); 14 option '
                 'sets (quotes, compactBoolean, reverseAttributes, selfClosingStyle, attributeCase, jsx, vue, custom '
                 'markup.attributes, and the pairs case+mapping, case+jsx, mapping+jsx, compact+case, reverse+quotes); one mention of every kind on an element repeated by `*2` (on itself, a group, its parent); '
                 '9 values with nested brackets in 4 value forms; char level: quoted / unquoted / shorthand value of <=2 chars',
        'thorough': 'K<=3 mentions; char level <=3 chars',
    },
    'outside_claim': ['duplicates that mix expression, boolean or implied mentions with plain ones (the property does not '
                      'order those flags)', 'an empty class value merged with another class', 'compactBoolean under '
                      'xhtml/xml self-closing style', 'markup.valuePrefix', 'values containing line breaks (re-flowed by the formatter)'],
    'stubs': ['tokenization of the concrete template string runs outside the tracer (same real function)',
              'Config object is constructed outside the tracer from concrete options'],
}

NAMES = ['a', 'class', 'id', 'checked', 'for']
ID, CLS, RAW, DQ, SQ, EXPR, NOVAL, BOOL, IMPL, IMPLV, EMPTY, IMPLBOOL = range(12)
NKIND = 12
PLAIN = (ID, CLS, RAW, DQ, SQ, NOVAL, EMPTY)
HASVAL = (ID, CLS, RAW, DQ, SQ, EXPR, IMPLV)

OPTSETS = {
    'default': {},
    'single': {'output.attributeQuotes': 'single'},
    'compact': {'output.compactBoolean': True},
    'reverse': {'output.reverseAttributes': True},
    'xhtml': {'output.selfClosingStyle': 'xhtml'},
    'upper': {'output.attributeCase': 'upper'},
    'custom-map': {'markup.attributes': {'a': 'data-a', 'id': 'key'}},
    # option pairs: the name mapping is applied first, the case option to the mapped name
    'upper-map': {'output.attributeCase': 'upper', 'markup.attributes': {'a': 'data-a', 'id': 'key'}},
    'compact-upper': {'output.attributeCase': 'upper', 'output.compactBoolean': True},
    'reverse-single': {'output.reverseAttributes': True, 'output.attributeQuotes': 'single'},
}


def mention_text(kind, name, marker):
    if kind == ID:
        return '#' + marker
    if kind == CLS:
        return '.' + marker
    return {RAW: '[%s=%s]', DQ: '[%s="%s"]', SQ: "[%s='%s']", EXPR: '[%s={%s}]', NOVAL: '[%s]', BOOL: '[%s.]',
            IMPL: '[!%s]', IMPLV: '[!%s=%s]', EMPTY: '[%s=""]', IMPLBOOL: '[!%s.]'}[kind].replace('%s', name, 1).replace('%s', marker)


def reference(mentions, opts, syntax):
    """mentions: list of (kind, name, value).  Returns the expected attribute string or None
    when the combination is outside the claim."""
    quote = "'" if opts.get('output.attributeQuotes') == 'single' else '"'
    compact = opts.get('output.compactBoolean', False)
    reverse = opts.get('output.reverseAttributes', False)
    upper = opts.get('output.attributeCase') == 'upper'
    style = opts.get('output.selfClosingStyle', 'html')
    # `markup.attributes` is ONE option: a value given by the caller replaces the syntax default as a whole (C20)
    if 'markup.attributes' in opts:
        mapping = dict(opts['markup.attributes'])
    else:
        mapping = {'class': 'className', 'for': 'htmlFor'} if syntax == 'jsx' else {}
    booleans = ('checked',)
    order, by = [], {}
    for m in mentions:
        if m[1] not in by:
            by[m[1]] = []
            order.append(m[1])
        by[m[1]].append(m)
    out = ['<ex']
    for name in order:
        ms = by[name]
        if len(ms) > 1:
            if not all([m[0] in PLAIN for m in ms]):
                return None
            if name == 'class' and not all([m[0] in (CLS, RAW, DQ, SQ) for m in ms]):
                return None
        if name == 'class' and len(ms) > 1:
            kind, value = DQ, []
            for m in ms:
                if value:
                    value.append(' ')
                value.append(m[2])
        else:
            eff = ms[0] if reverse else ms[-1]
            kind, value = eff[0], [eff[2]]
        shown = mapping.get(name, name)
        if upper:
            shown = shown.upper()
        is_bool = kind == BOOL or (name in booleans and kind in (NOVAL, EMPTY, IMPL))
        if name in booleans and kind == EMPTY:
            return None
        if kind in (IMPL, IMPLBOOL):
            continue      # implied without value: dropped (also when marked boolean)
        if is_bool:
            if compact:
                if style != 'html':
                    return None
                out.append(' ' + shown)
            else:
                out.append(' ' + shown + '=' + quote + shown + quote)
        elif kind in (NOVAL, EMPTY):
            out.append(' ' + shown + '=' + quote + quote)
        elif kind == EXPR:
            out += [' ' + shown + '={'] + value + ['}']
        else:
            out += [' ' + shown + '=' + quote] + value + [quote]   # pieces: no %-formatting (it realises symbolic strings)
    out.append('></ex>')
    return out


def mk_merge(K, optset, syntax, k1fix, reps=False):
    from vf.pipe import expand_injected, make_config, set_literal, Recorder, rope_eq
    opts = dict(OPTSETS[optset])
    opts['output.format'] = False

    def val_ok(v, l):
        if not (1 <= l <= 2) or len(v) != l:
            return False
        return True if (ascii_only(v, 256) & lb_free(v)) else False

    def run(ms, wrong=False, rp=0):
        """ms: list of (kind, name_index, value); rp: 0 plain, 1 `ex..*2`, 2 `(ex..)*2`, 3 `ey*2>ex..` (every copy carries the attributes)"""
        parts = []
        mentions = []
        used = []
        for i, (k, n, v) in enumerate(ms):
            name = NAMES[n]
            if k == ID:
                name = 'id'
            elif k == CLS:
                name = 'class'
            marker = 'QZ%d' % (i + 1)
            parts.append(mention_text(k, name, marker))
            if k in HASVAL:
                used.append((marker, v))
            mentions.append((k, name, v if k in HASVAL else None))
        exp = reference(mentions, opts, syntax)
        if exp is None:
            return 'skip'
        abbr = 'ex' + ''.join(parts)
        if rp == 1:
            abbr, exp = abbr + '*2', exp + exp
        elif rp == 2:
            abbr, exp = '(' + abbr + ')*2', exp + exp
        elif rp == 3:
            abbr, exp = 'ey*2>' + abbr, (['<ey>'] + exp + ['</ey>']) * 2
        if wrong:
            exp = exp + [' ']

        def edit(toks):
            for marker, v in used:
                set_literal(toks, marker, v)
        rec = Recorder()
        out = expand_injected(abbr, make_config({'syntax': syntax, 'options': rec.options(opts)}), edit)
        r = rope_eq(rec.pieces, exp)
        if r is not True:
            return 'attributes_differ:' + r
        if len(out) != sum([len(p) for p in rec.pieces]):
            return 'returned_string_is_not_the_pushed_text'
        return True

    def harness(wrong):
        def h(k2: int, k3: int, n1: int, n2: int, n3: int, l1: int, l2: int, l3: int, v1: str, v2: str, v3: str, rp: int):
            if reps:
                if not (1 <= rp <= 3):
                    return 'skip'
            elif rp != 0:
                return 'skip'
            ks, ns, vs, ls = [k1fix, k2, k3][:K], [n1, n2, n3][:K], [v1, v2, v3][:K], [l1, l2, l3][:K]
            ms = []
            for i in range(K):
                k, n, v, l = ks[i], ns[i], vs[i], ls[i]
                if not (0 <= k < NKIND and 0 <= n < len(NAMES)):
                    return 'skip'
                if k in (ID, CLS) and n != 0:
                    return 'skip'          # shorthand has no name selector: keep one representative
                if k in HASVAL:
                    if not val_ok(v, l):
                        return 'skip'
                elif l != 0 or len(v) != 0:
                    return 'skip'
                ms.append((k, n, v))
            for i in range(K, 3):
                if [k1fix, k2, k3][i] != 0 or [n1, n2, n3][i] != 0 or [l1, l2, l3][i] != 0 or len([v1, v2, v3][i]) != 0:
                    return 'skip'
            return run(ms, wrong, rp)
        return h
    w = dict(k2=0, k3=0, n1=0, n2=0, n3=0, l1=1 if k1fix in HASVAL else 0, l2=0, l3=0,
             v1='x' if k1fix in HASVAL else '', v2='', v3='', rp=1 if reps else 0)
    if K >= 2:
        w.update(k2=DQ, n2=3, v2='yy', l2=2)
    if K >= 3:
        w.update(k3=CLS, n3=0, v3='z', l3=1)
    return {'fn': harness(False), 'twin': harness(True), 'witnesses': [w],
            'assumptions': ['element `ex` with %d attribute mentions; mention 1 has kind %d, other kinds and all names are '
                            'solver-chosen; values: 1..2 chars, code points <256, no line-break characters; syntax=%s '
                            'options=%r%s' % (K, k1fix, syntax, OPTSETS[optset], '; the element is repeated (`*2` on it, on a group around it, '
                                              'or on its parent: solver-chosen) and every copy must carry the attributes' if reps else '')],
            'functions': ['parser.attribute_set/short_attribute/attribute/quoted/literal', 'convert.convert_attribute',
                          'convert.create_attribute', 'markup.attributes.merge_attributes/merge_value/merge_declarations',
                          'format.html.push_attribute', 'output_stream.attr_quote/is_boolean_attribute/attr_name']}


# ------------------------------------------------------------------ C03-b character level
def mk_chars(form, n, lo=0, hi=128):
    import emmet
    from vf.pipe import make_config
    user = {'options': {'output.format': False}}

    def special(c):
        return c == '$' or c == '\\' or c == '"' or c == "'"

    def ok_quoted(v, q):
        return not any([c == q or c == '$' or c == '\\' for c in v])

    def ok_unquoted(v):
        return not any([special(c) or c == ' ' or c == '\t' or c == '\n' or c == '\r' or c == '\xa0' or c == '=' or
                        c == '(' or c == ')' or c == '[' or c == ']' or c == '{' or c == '}' for c in v])

    def ok_name(v):
        return all([('a' <= c <= 'z') or ('A' <= c <= 'Z') or ('0' <= c <= '9') or c == '_' or c == '-' or c == ':' or
                    c == '!' for c in v])

    def h(v: str):
        if not (1 <= len(v) <= n) or not (ascii_only(v, 128) & lb_free(v)):
            return 'skip'
        if not (lo <= ord(v[0]) < hi):
            return 'skip'
        if form == 'dq':
            if not ok_quoted(v, '"'):
                return 'skip'
            abbr, exp = 'ex[a="' + v + '"]', '<ex a="' + v + '"></ex>'
        elif form == 'sq':
            if not ok_quoted(v, "'"):
                return 'skip'
            abbr, exp = "ex[a='" + v + "']", '<ex a="' + v + '"></ex>'
        elif form == 'raw':
            if not ok_unquoted(v):
                return 'skip'
            abbr, exp = 'ex[a=' + v + ']', '<ex a="' + v + '"></ex>'
        elif form == 'class':
            if not ok_name(v) or v[-1] == '!' and False:
                return 'skip'
            abbr, exp = 'ex.' + v, '<ex class="' + v + '"></ex>'
        else:
            if not ok_name(v):
                return 'skip'
            abbr, exp = 'ex#' + v, '<ex id="' + v + '"></ex>'
        out = emmet.expand(abbr, make_config(user))
        return True if out == exp else 'value_not_verbatim'

    def twin(v: str):
        r = h(v)
        return r if r == 'skip' else 'twin'
    wit = [{'v': w} for w in ['x', 'x-'[:n], 'A', '1', '~', '-', '!'] if lo <= ord(w[0]) < hi]
    return {'fn': h, 'twin': twin if wit else None, 'witnesses': wit,
            'assumptions': ['value form %s; first character in [%d,%d); value ASCII, 1..%d chars, free of the characters that end the '
                            'literal in that context (quote, $, backslash; blanks, =, brackets for unquoted; name characters for '
                            'shorthands)' % (form, lo, hi, n)],
            'functions': ['abbreviation.tokenizer.tokenize/literal/quote/bracket/operator (character level)',
                          'parser.attribute', 'convert.convert_attribute']}


BRACKETED = ['x[1]', 'x[[1]]', 'f(a(b))', 'x(y)z', 'a(b)[c]', '(a)', '[[a][b]]', 'f(g(h(1)))', 'a[b(c[d])]']


def mk_bracketed():
    """values with nested brackets (concrete pool, solver-chosen index) unquoted, quoted and as expression"""
    import emmet
    from vf.pipe import make_config
    user = {'options': {'output.format': False}}

    def harness(wrong):
        def h(i: int, form: int, rep: bool):
            if not (0 <= i < len(BRACKETED) and 0 <= form <= 3):
                return 'skip'
            v = BRACKETED[i]
            abbr = ['ex[a=%s]', 'ex[a="%s"]', "ex[a='%s' b]", 'ex[a={%s}]'][form] % v
            exp = ['<ex a="%s"></ex>', '<ex a="%s"></ex>', '<ex a="%s" b=""></ex>', '<ex a={%s}></ex>'][form] % v
            if rep:
                abbr, exp = abbr + '*2', exp + exp
            if wrong:
                exp += ' '
            out = emmet.expand(abbr, make_config(user))
            return True if out == exp else 'bracketed_value_not_verbatim:' + abbr
        return h
    return {'fn': harness(False), 'twin': harness(True), 'witnesses': [dict(i=0, form=0, rep=False), dict(i=2, form=1, rep=True)],
            'assumptions': ['value from %r (solver-chosen), written unquoted, double-quoted, single-quoted or as {expression}; element plain or `*2`' % BRACKETED],
            'functions': ['abbreviation.parser.literal (bracket depth per kind)', 'abbreviation.stringify.Bracket', 'convert.convert_attribute']}


def jobs(tier):
    q = tier == 'quick'
    K = 2 if q else 3
    out = []
    combos = [(o, 'html') for o in OPTSETS] + [('default', 'jsx'), ('default', 'vue'), ('default', 'xml'), ('upper', 'jsx'),
                                                ('custom-map', 'jsx')]
    relevant = {('default', 'html'): range(NKIND), ('single', 'html'): (ID, RAW, DQ, SQ, EXPR),
                ('compact', 'html'): (BOOL, NOVAL, RAW), ('reverse', 'html'): PLAIN, ('xhtml', 'html'): (NOVAL, EMPTY, BOOL),
                ('upper', 'html'): (RAW, CLS, NOVAL), ('custom-map', 'html'): (RAW, ID, NOVAL),
                ('upper-map', 'html'): (RAW, ID, BOOL), ('compact-upper', 'html'): (BOOL, NOVAL), ('reverse-single', 'html'): (RAW, DQ),
                ('upper', 'jsx'): (CLS, RAW), ('custom-map', 'jsx'): (CLS, ID),
                ('default', 'jsx'): (CLS, RAW, EXPR), ('default', 'vue'): (CLS, RAW), ('default', 'xml'): (NOVAL, BOOL, RAW)}
    for (o, syn) in combos:
        newer = (o, syn) in (('upper-map', 'html'), ('compact-upper', 'html'), ('reverse-single', 'html'), ('upper', 'jsx'), ('custom-map', 'jsx'))
        for k1 in (relevant[(o, syn)] if (q or newer) else range(NKIND)):
            out.append(Job('C03-a/merge/K=%d,%s,%s,k1=%d' % (K, o, syn, k1), 'vf.props.c03:mk_merge',
                           dict(K=K, optset=o, syntax=syn, k1fix=k1), shape='H', bound='K=%d mentions' % K,
                           budget=900 if q else 3000, weight=100))
    for k1 in range(NKIND):
        out.append(Job('C03-c/repeated/K=%d,k1=%d' % (1 if q else 2, k1), 'vf.props.c03:mk_merge',
                       dict(K=1 if q else 2, optset='default', syntax='html', k1fix=k1, reps=True), shape='H',
                       bound='%d mentions on a repeated element' % (1 if q else 2), budget=900 if q else 3000, weight=60))
    out.append(Job('C03-b/bracketed', 'vf.props.c03:mk_bracketed', {}, shape='H', bound='9 bracketed values x 4 forms', budget=600, weight=40))
    from vf.props.common import ASCII_PARTS
    for form in ('dq', 'sq', 'raw', 'class', 'id'):
        for (lo, hi) in ASCII_PARTS:
            if form in ('class', 'id') and (lo, hi) in ((0, 33), (37, 43), (123, 128)):
                continue      # no name character in these ranges: the partition would be vacuous
            out.append(Job('C03-b/chars/%s/c0=[%d,%d)' % (form, lo, hi), 'vf.props.c03:mk_chars',
                           dict(form=form, n=2 if q else 3, lo=lo, hi=hi), shape='W',
                           bound='value <=%d chars through the real tokenizer' % (2 if q else 3), budget=900 if q else 3000,
                           weight=500))
    return out
