"""C16 - scanners and matchers are total and report only well-formed ranges."""
from vf.job import Job
from vf.props.common import ascii_partitions, in_partition

META = {
    'rule': 'W-harness: every ASCII string of the stated length and every integer position through the '
            'real scanners/matchers; oracle = no exception, 0<=start<=end<=len for every range, HTML tag '
            'shape/order, match==outward[0], outward strictly nested around pos, inward nested.',
    'bounds': {
        'quick': 'HTML scan/attributes/match/balanced len<=3 (any int pos); CSS scan, match/balanced (any int pos), split_value '
                 'len<=3; 25 half-typed documents (valid prefix + <=2 free characters); every forest document of 6 nodes '
                 '(HTML and CSS generators of C09/C10), whole and cut after 3/4 and 1/2 of its length, any int pos',
        'thorough': 'HTML scan len<=4, attributes len<=3, HTML matchers len<=4; CSS scan/matchers/split_value len<=4; prefixes + <=3 free characters; forest documents of 7 nodes',
    },
    'outside_claim': ['strings longer than the bound', 'code points >= 128',
                      'arbitrary mutation of long valid documents (only truncation of generated documents is explored)'],
}


def rng_ok(a, b, n):
    return 0 <= a <= b <= n


# ---------------------------------------------------------------- HTML
def html_tags(s, special=True):
    from emmet.html_matcher import scan
    from emmet.html_matcher.utils import default_special
    tags = []
    scan(s, lambda name, t, a, b: tags.append((name, t, a, b)), default_special if special else None)
    return tags


def check_html_tags(s, tags):
    n = len(s)
    prev = 0
    for (name, t, a, b) in tags:
        if not rng_ok(a, b, n):
            return 'range_out_of_bounds'
        if a < prev:
            return 'tags_overlap_or_unordered'
        prev = b
        if b - a < 3 or s[a] != '<' or s[b - 1] != '>':
            return 'tag_not_delimited'
        off = a + 2 if t == 2 else a + 1
        if t == 2 and s[a + 1] != '/':
            return 'close_without_slash'
        if len(name) == 0 or s[off:off + len(name)] != name:
            return 'name_not_at_tag_start'
    return True


def mk_html_scan(L, lo, hi):
    def h(s: str):
        if not in_partition(s, L, lo, hi):
            return 'skip'
        return check_html_tags(s, html_tags(s))

    def twin(s: str):
        if not in_partition(s, L, lo, hi):
            return 'skip'
        tags = html_tags(s)
        return 'twin' if tags else True
    wit = [w for w in ['', '<a>', '</a>', '<a/>', '<a b>', '<!--', '<?a', 'abc'] if len(w) == L and
           (not w or lo <= ord(w[0]) < hi)]
    return {'fn': h, 'twin': twin if lo <= ord('<') < hi and L >= 3 else None,
            'witnesses': [{'s': w} for w in wit],
            'assumptions': ['s ASCII, len(s)==%d, ord(s[0]) in [%d,%d); special tags = library default' % (L, lo, hi)],
            'functions': ['emmet.html_matcher.scan.scan']}


def balanced_json(x):
    return (x.name, tuple(x.open), tuple(x.close) if x.close else None)


def mk_html_match(L, lo, hi, xml):
    from emmet import html_matcher as hm
    opt = {'xml': True} if xml else None

    def h(s: str, pos: int):
        if not in_partition(s, L, lo, hi):
            return 'skip'
        return check(s, pos)

    def check(s, pos):
        n = len(s)
        m = hm.match(s, pos, opt)
        out = hm.balanced_outward(s, pos, opt)
        inw = hm.balanced_inward(s, pos, opt)
        if m is None:
            if out:
                return 'match_none_but_outward'
        else:
            if not out:
                return 'match_but_no_outward'
            if (m.name, tuple(m.open), tuple(m.close) if m.close else None) != balanced_json(out[0]):
                return 'match_differs_from_outward0'
            for at in m.attributes:
                if not rng_ok(at.name_start, at.name_end, n) or s[at.name_start:at.name_end] != at.name:
                    return 'attr_name_range'
                if at.value is not None and (not rng_ok(at.value_start, at.value_end, n) or
                                             s[at.value_start:at.value_end] != at.value):
                    return 'attr_value_range'
        prev = None
        for t in out:
            a, b = t.open[0], (t.close[1] if t.close else t.open[1])
            if not rng_ok(t.open[0], t.open[1], n) or (t.close and not rng_ok(t.close[0], t.close[1], n)):
                return 'outward_range_out_of_bounds'
            if t.close and t.close[0] < t.open[1]:
                return 'close_before_open'
            if not (a < pos < b):
                return 'outward_not_around_pos'
            if prev is not None and not (a < prev[0] and prev[1] < b):
                return 'outward_not_strictly_nested'
            prev = (a, b)
        prev = None
        for t in inw:
            a, b = t.open[0], (t.close[1] if t.close else t.open[1])
            if not rng_ok(t.open[0], t.open[1], n) or (t.close and not rng_ok(t.close[0], t.close[1], n)):
                return 'inward_range_out_of_bounds'
            if prev is not None and not (prev[0] <= a and b <= prev[1]):
                return 'inward_not_nested'
            prev = (a, b)
        return True

    def twin(s: str, pos: int):
        if not in_partition(s, L, lo, hi):
            return 'skip'
        return 'twin' if hm.match(s, pos, opt) is not None else True
    wit = [{'s': w, 'pos': p} for (w, p) in [('<a>', 1), ('<br>', 2), ('abc', 0), ('<a/>', 9), ('', -1)]
           if len(w) == L and (not w or lo <= ord(w[0]) < hi)]
    return {'fn': h, 'twin': twin if lo <= ord('<') < hi and L >= 4 else None, 'witnesses': wit, 'check': check,
            'assumptions': ['s ASCII, len(s)==%d, ord(s[0]) in [%d,%d); pos any integer; xml=%s' % (L, lo, hi, xml)],
            'functions': ['emmet.html_matcher.match', 'balanced_outward', 'balanced_inward', 'get_attributes']}


def mk_html_attrs(L, lo, hi):
    from emmet.html_matcher import attributes

    def h(s: str):
        if not in_partition(s, L, lo, hi):
            return 'skip'
        n = len(s)
        prev = 0
        for at in attributes(s):
            if not rng_ok(at.name_start, at.name_end, n) or s[at.name_start:at.name_end] != at.name:
                return 'attr_name_range'
            if at.name_start < prev:
                return 'attrs_unordered'
            prev = at.name_end
            if at.value is not None:
                if not rng_ok(at.value_start, at.value_end, n) or s[at.value_start:at.value_end] != at.value:
                    return 'attr_value_range'
                if at.value_start < at.name_end:
                    return 'value_before_name'
                prev = at.value_end
        return True

    def twin(s: str):
        if not in_partition(s, L, lo, hi):
            return 'skip'
        return 'twin' if attributes(s) else True
    wit = [{'s': w} for w in ['', 'a', 'a=b', 'a="b"', "a='", '{a}', '*a'] if len(w) == L and
           (not w or lo <= ord(w[0]) < hi)]
    return {'fn': h, 'twin': twin if lo <= ord('a') < hi and L >= 1 else None, 'witnesses': wit,
            'assumptions': ['s ASCII, len(s)==%d, ord(s[0]) in [%d,%d); fragment form (no tag name)' % (L, lo, hi)],
            'functions': ['emmet.html_matcher.attributes.attributes']}


# ---------------------------------------------------------------- CSS
def mk_css_scan(L, lo, hi):
    from emmet.css_matcher import scan

    def run(s):
        toks = []
        scan(s, lambda t, a, b, d: toks.append((t, a, b, d)))
        return toks

    def h(s: str):
        if not in_partition(s, L, lo, hi):
            return 'skip'
        n = len(s)
        for (t, a, b, d) in run(s):
            if not rng_ok(a, b, n):
                return 'range_out_of_bounds'
            if not (-1 <= d <= n):
                return 'delimiter_out_of_bounds'
        return True

    def twin(s: str):
        if not in_partition(s, L, lo, hi):
            return 'skip'
        return 'twin' if run(s) else True
    wit = [{'s': w} for w in ['', 'a', 'a{}', 'a:b', 'a:b;', '"a', '/*', 'a{b}'] if len(w) == L and
           (not w or lo <= ord(w[0]) < hi)]
    return {'fn': h, 'twin': twin if lo <= ord('a') < hi and L >= 1 else None, 'witnesses': wit,
            'assumptions': ['s ASCII, len(s)==%d, ord(s[0]) in [%d,%d)' % (L, lo, hi)],
            'functions': ['emmet.css_matcher.scan.scan', 'literal', 'comment']}


def mk_css_match(L, lo, hi):
    from emmet import css_matcher as cm

    def h(s: str, pos: int):
        if not in_partition(s, L, lo, hi):
            return 'skip'
        return check(s, pos)

    def check(s, pos):
        n = len(s)
        m = cm.match(s, pos)
        if m is not None:
            if not rng_ok(m.start, m.end, n):
                return 'match_range'
            if not rng_ok(m.body_start, m.body_end, n):
                return 'match_body_range'
        for r in cm.balanced_outward(s, pos):
            if not rng_ok(r[0], r[1], n):
                return 'outward_range'
        for r in cm.balanced_inward(s, pos):
            if not rng_ok(r[0], r[1], n):
                return 'inward_range'
        return True

    def twin(s: str, pos: int):
        if not in_partition(s, L, lo, hi):
            return 'skip'
        return 'twin' if cm.match(s, pos) is not None else True
    wit = [{'s': w, 'pos': p} for (w, p) in [('', 0), ('a{}', 1), ('a:b', 1), ('a:b;', 2), ('a{b}', 3)]
           if len(w) == L and (not w or lo <= ord(w[0]) < hi)]
    return {'fn': h, 'twin': twin if lo <= ord('a') < hi and L >= 3 else None, 'witnesses': wit, 'check': check,
            'assumptions': ['s ASCII, len(s)==%d, ord(s[0]) in [%d,%d); pos any integer' % (L, lo, hi)],
            'functions': ['emmet.css_matcher.match', 'balanced_outward', 'balanced_inward', 'inner_range']}


def mk_css_split(L, lo, hi):
    from emmet.css_matcher import split_value

    def h(s: str, offset: int):
        if not in_partition(s, L, lo, hi):
            return 'skip'
        n = len(s)
        prev = 0
        for (a, b) in split_value(s, offset):
            a -= offset
            b -= offset
            if not rng_ok(a, b, n) or a == b:
                return 'token_range'
            if a < prev:
                return 'tokens_overlap'
            prev = b
        return True

    def twin(s: str, offset: int):
        if not in_partition(s, L, lo, hi):
            return 'skip'
        return 'twin' if split_value(s, offset) else True
    wit = [{'s': w, 'offset': 0} for w in ['', 'a', 'a b', '1+2', '"a', '(a)'] if len(w) == L and
           (not w or lo <= ord(w[0]) < hi)]
    return {'fn': h, 'twin': twin if lo <= ord('a') < hi and L >= 1 else None, 'witnesses': wit,
            'assumptions': ['s ASCII, len(s)==%d, ord(s[0]) in [%d,%d); offset any integer' % (L, lo, hi)],
            'functions': ['emmet.css_matcher.parse.split_value']}


HTML_PREFIXES = ['<style></style><style>', '<script>x</script><script>', '<a b="', '<a><!--', '<a></a><b', "<a href='x'>t</a>",
                 '<![CDATA[', '<?php ', '<a><br><b>', '<a b=c d>', '<p>x</br', '<img a></img', '<script>x</script><style>',
                 '<script type=', '<div {# ', '<b #', '<i *a [b]=']
CSS_PREFIXES = ['a{b:c}d{e:', 'a{b:"', '@media (x:', 'a{/*', 'a{b:c;', 'a::b{c:url(', 'a{b{c:d}', 'a:b;c']


def mk_html_suffix(pi, n):
    from emmet import html_matcher as hm
    head = HTML_PREFIXES[pi]
    inner = mk_html_match(0, 0, 128, False)['check']

    def h(R: str, pos: int):
        if len(R) > n:
            return 'skip'
        ok = True
        for c in R:
            ok = ok & (ord(c) < 128)
        if not ok:
            return 'skip'
        s = head + R
        r = check_html_tags(s, html_tags(s))
        if r is not True:
            return r
        if len(R) > n - 1:
            return True if pos == 0 else 'skip'     # matcher relations are explored for suffixes one character shorter
        return inner(s, pos)

    def twin(R: str, pos: int):
        if len(R) > n:
            return 'skip'
        return 'twin' if html_tags(head + R) else True
    return {'fn': h, 'twin': twin if pi not in (6, 7) else None, 'witnesses': [{'R': '', 'pos': 3}, {'R': '>'[:n], 'pos': 1}],
            'assumptions': ['document = %r + R, R any ASCII string of <=%d characters (scanner); matcher relations with any integer pos for R of <=%d characters' % (head, n, n - 1)],
            'functions': ['emmet.html_matcher.scan.scan', 'match', 'balanced_outward', 'balanced_inward']}


def mk_css_suffix(pi, n):
    from emmet.css_matcher import scan
    head = CSS_PREFIXES[pi]
    inner = mk_css_match(0, 0, 128)['check']

    def h(R: str, pos: int):
        if len(R) > n:
            return 'skip'
        ok = True
        for c in R:
            ok = ok & (ord(c) < 128)
        if not ok:
            return 'skip'
        s = head + R
        toks = []
        scan(s, lambda t, a, b, d: toks.append((t, a, b, d)))
        for (t, a, b, d) in toks:
            if not rng_ok(a, b, len(s)):
                return 'range_out_of_bounds'
        if len(R) > n - 1:
            return True if pos == 0 else 'skip'
        return inner(s, pos)

    def twin(R: str, pos: int):
        if len(R) > n:
            return 'skip'
        return 'twin'
    return {'fn': h, 'twin': twin, 'witnesses': [{'R': '', 'pos': 3}, {'R': '}'[:n], 'pos': 1}],
            'assumptions': ['stylesheet = %r + R, R any ASCII string of <=%d characters (scanner); matcher relations with any integer pos for R of <=%d characters' % (head, n, n - 1)],
            'functions': ['emmet.css_matcher.scan.scan', 'match', 'balanced_outward', 'balanced_inward']}


def mk_forest(lang, n, part, nparts):
    """larger inputs than free strings reach: every ordered forest of n nodes rendered by the document generators, whole and
    cut off after 3/4 and 1/2 of its length (half-typed), any integer position; oracle = the same totality/range clauses"""
    from vf.gen import forest, htmldoc as H, cssdoc as C
    from vf.util import pick_int
    words = [w for i, w in enumerate(forest.dyck(n)) if i % nparts == part]
    docs = []
    for w in words:
        if lang == 'html':
            d = H.build(forest.html_kinds(w, 1, False, H), 1)[0]
        else:
            d = C.build(forest.css_kinds(w, 1, C), 1, stmts=True)[0]
        docs += [d, d[:(3 * len(d)) // 4], d[:len(d) // 2]]
    if lang == 'css':
        # stylesheets that make the matchers re-use pooled range objects (second rule starts with a declaration / statement / rule)
        fam = C.pool_family()
        docs += [C.build(ks, r)[0] for r in (0, 1) for i, ks in enumerate(fam) if i % nparts == part]
    if lang == 'html':
        inner = mk_html_match(0, 0, 128, False)['check']
    else:
        inner = mk_css_match(0, 0, 128)['check']
        from emmet.css_matcher import scan

    def h(i: int, pos: int):
        if not (0 <= i < len(docs)):
            return 'skip'
        s = docs[pick_int(i, 0, len(docs) - 1)]
        if lang == 'html':
            r = check_html_tags(s, html_tags(s))
            if r is not True:
                return r
        else:
            toks = []
            scan(s, lambda t, a, b, d: toks.append((t, a, b, d)))
            for (t, a, b, d) in toks:
                if not rng_ok(a, b, len(s)):
                    return 'range_out_of_bounds'
        return inner(s, pos)

    def twin(i: int, pos: int):
        if not (0 <= i < len(docs)):
            return 'skip'
        return 'twin'
    return {'fn': h, 'twin': twin, 'witnesses': [{'i': 0, 'pos': 3}, {'i': len(docs) - 1, 'pos': 1}],
            'assumptions': ['%s input = forest document %d mod %d of the %d forests with %d nodes, whole / first 3/4 / first half (solver-chosen '
                            'index)%s; pos any integer' % (lang, part, nparts, len(forest.dyck(n)), n, ' plus the pool family of vf/gen/cssdoc.py (216 stylesheets)' if lang == 'css' else '')],
            'functions': ['html_matcher.scan/match/balanced_outward/balanced_inward' if lang == 'html' else
                          'css_matcher.scan/match/balanced_outward/balanced_inward (pooled ranges)']}


def jobs(tier):
    q = tier == 'quick'
    plan = [
        ('html-scan', 'mk_html_scan', 3 if q else 4, {}),
        ('html-attrs', 'mk_html_attrs', 3, {}),
        ('html-match', 'mk_html_match', 3 if q else 4, {'xml': False}),
        ('html-match-xml', 'mk_html_match', 3 if q else 4, {'xml': True}),
        ('css-scan', 'mk_css_scan', 3 if q else 4, {}),
        ('css-match', 'mk_css_match', 3 if q else 4, {}),
        ('css-split', 'mk_css_split', 3 if q else 4, {}),
    ]
    out = []
    for pi in range(len(HTML_PREFIXES)):
        m = 2 if (q or pi >= 13) else 3      # the prefixes added in round 4 keep the 2-character bound in both tiers
        out.append(Job('C16-b/html-suffix/p%02d' % pi, 'vf.props.c16:mk_html_suffix', dict(pi=pi, n=m), shape='H',
                       bound='valid prefix + <=%d free chars' % m, budget=900 if m == 2 else 3000, weight=5000))
    for pi in range(len(CSS_PREFIXES)):
        out.append(Job('C16-b/css-suffix/p%02d' % pi, 'vf.props.c16:mk_css_suffix', dict(pi=pi, n=2 if q else 3), shape='H',
                       bound='valid prefix + <=%d free chars' % (2 if q else 3), budget=900 if q else 3000, weight=5000))
    fn = 6 if q else 7
    fparts = 6 if q else 16
    for lang in ('html', 'css'):
        for part in range(fparts):
            out.append(Job('C16-c/forest/%s/n=%d,part%d' % (lang, fn, part), 'vf.props.c16:mk_forest', dict(lang=lang, n=fn, part=part, nparts=fparts),
                           shape='H', bound='forest documents of %d nodes, whole and cut' % fn, budget=1500 if q else 6000, weight=4000))
    for (tag, mk, n, extra) in plan:
        for (L, lo, hi) in ascii_partitions(n, split_from=3):
            p = dict(L=L, lo=lo, hi=hi)
            p.update(extra)
            out.append(Job('C16-a/%s/len=%d,c0=[%d,%d)' % (tag, L, lo, hi), 'vf.props.c16:' + mk, p,
                           bound='ASCII len=%d first char in [%d,%d)' % (L, lo, hi),
                           budget=300 if q else 2400, weight=30 ** L))
    return out
