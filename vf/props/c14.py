"""C14 - a snippet alias expands exactly like its definition, and resolution ends."""
import re

from vf.job import Job
from vf.util import fold, lb_free, ascii_only

META = {
    'rule': 'C14-a: solver-chosen index into the built-in snippet table of a syntax [C]; expand(alias X) is compared with expand of '
            'the definition text with X applied by the documented rule (string surgery on the definition, no parser in the oracle); '
            'X carries a symbolic attribute value / text / repeat count [S]. C14-c: user tables with several top-level nodes against '
            'explicit expectations. C14-b: all tables of 3 user snippets over a menu of 9 (self/mutually/3-cyclic) bodies.',
    'bounds': {
        'quick': 'every built-in snippet of html, xsl and pug (table-exhaustive) used alone, and with [t=V] / {T} / *N / `/` / >ey '
                 'where the definition is a single top-level element chain; V,T 1..2 chars, N in 1..3; 8 user snippets x 16 decorated uses (incl. definitions ending in a nameless element or bare text); a failing resolution '
                 '(4 broken nested definitions x 3 nesting depths) followed by 4 probes on the repaired table; 729 cyclic tables x 3 probes',
        'thorough': 'the same with format on as well, reverseAttributes, N in 1..4',
    },
    'outside_claim': ['decorations on built-in snippets whose definition has several top-level nodes, groups, `$` or text on the top '
                      'element (covered by the user tables instead)', 'snippets of more than 3 user keys in cycles'],
    'stubs': ['tokenization of concrete abbreviation strings runs outside the tracer (same real function)',
              'Config object is constructed outside the tracer from concrete options'],
}

DECOS = ['none', 'attr', 'text', 'repeat', 'close', 'child']


def split_top(defn):
    """(head, tail) at the first `>` outside brackets/braces/quotes; None if the definition has a top-level `+`, `^`, a group or
    is a bare text node - those are not decorated by string surgery."""
    depth_sq = depth_cu = 0
    quote = None
    for i, ch in enumerate(defn):
        if quote:
            if ch == quote:
                quote = None
            continue
        if depth_cu:
            if ch == '{':
                depth_cu += 1
            elif ch == '}':
                depth_cu -= 1
            continue
        if ch in '"\'' and depth_sq:
            quote = ch
        elif ch == '[':
            depth_sq += 1
        elif ch == ']':
            depth_sq -= 1
        elif ch == '{':
            depth_cu += 1
        elif depth_sq == 0:
            if ch in '+^(':
                return None
            if ch == '>':
                return defn[:i], defn[i:]
    return defn, ''


def simple_head(head):
    return bool(re.match(r'^[A-Za-z][\w:-]*(\[[^\]]*\])?/?$', head)) and '$' not in head


def mk_builtin(syntax, deco, part, nparts, fmt):
    from emmet.config import Config
    from vf.pipe import expand_injected, make_config, set_literal, set_repeat, Recorder, rope_eq
    table = sorted(Config({'syntax': syntax}).snippets.items())
    mine = [kv for i, kv in enumerate(table) if i % nparts == part]
    opts = {'output.format': fmt}

    def payload_ok(t, l):
        if not (1 <= l <= 2) or len(t) != l:
            return False
        return True if (ascii_only(t, 256) & lb_free(t) & fold(t, lambda o: (o != 60) & (o != 36))) else False

    def build(alias, defn):
        """(abbr with alias, abbr with definition) or None when the decoration is outside the claim for this definition"""
        if deco == 'none':
            return alias, defn
        sp = split_top(defn)
        if sp is None:
            return None
        head, tail = sp
        if not simple_head(head):
            return None
        if any(c in tail for c in '$({') and deco != 'child':
            pass
        closed = head.endswith('/')
        core = head[:-1] if closed else head
        sl = '/' if closed else ''
        if deco == 'attr':
            return alias + '[t=QZ1]', core + '[t=QZ1]' + sl + tail
        if deco == 'text':
            return alias + '{QZ1}', core + '{QZ1}' + sl + tail
        if deco == 'repeat':
            if '$' in defn:
                return None
            return alias + '*901', '(' + defn + ')*901'
        if deco == 'close':
            return alias + '/', core + '/' + tail
        if deco == 'child':
            if '{' in defn or '(' in defn or '$' in defn or '^' in defn:
                return None
            return alias + '>ey', defn + '>ey'
        return None

    def run(i, t, r, wrong):
        alias, defn = mine[i]
        pair = build(alias, defn)
        if pair is None:
            return 'skip'
        outs = []
        for abbr in pair:
            rec = Recorder()

            def edit(toks):
                if 'QZ1' in abbr:
                    set_literal(toks, 'QZ1', t)
                if '*901' in abbr:
                    set_repeat(toks, 901, r)
            out = expand_injected(abbr, make_config({'syntax': syntax, 'options': rec.options(opts)}), edit)
            outs.append((out, rec.pieces))
        a, b = outs[0][1], outs[1][1]
        if wrong:
            b = b + ['!']
        res = rope_eq(a, b)
        if res is not True:
            return 'alias_differs_from_definition:' + alias + ':' + res
        return True if len(outs[0][0]) == len(outs[1][0]) else 'alias_differs_from_definition:' + alias

    def harness(wrong):
        def h(i: int, t: str, l: int, r: int):
            if not (0 <= i < len(mine)):
                return 'skip'
            if deco in ('attr', 'text'):
                if not payload_ok(t, l):
                    return 'skip'
            elif l != 0 or len(t) != 0:
                return 'skip'
            if deco == 'repeat':
                if not (1 <= r <= 3):
                    return 'skip'
            elif r != 1:
                return 'skip'
            return run(i, t, r, wrong)
        return h
    w = dict(i=0, t='x' if deco in ('attr', 'text') else '', l=1 if deco in ('attr', 'text') else 0, r=2 if deco == 'repeat' else 1)
    return {'fn': harness(False), 'twin': harness(True), 'witnesses': [w, dict(w, i=min(3, len(mine) - 1))],
            'assumptions': ['syntax %s, built-in snippets %d mod %d (%d aliases, solver-chosen index); decoration %s; format=%s; '
                            'payload 1..2 code points <256 without line breaks, `<`, `$`; repeat 1..3' % (
                                syntax, part, nparts, len(mine), deco, fmt)],
            'functions': ['markup.snippets.resolve_snippets/resolve/walk_resolve/merge', 'markup.utils.find_deepest',
                          'markup.attributes.merge_attributes', 'snippets.parse_snippets']}


USER = {'foo': 'ea+eb', 'bar': 'ea>eb+ec', 'baz': '(ea>eb)+ec[u=w]', 'qux': '.foo[u=w]', 'txt': '{hello}', 'imp': 'ea>.in',
        'nest': 'foo[u=w]', 'nest2': 'nest.k'}
# expectations as rope pieces; 0 = payload V, 1 = repeat marker
USER_CASES = [
    ('foo[t=QZ1]', ['<ea t="', 0, '"></ea><eb t="', 0, '"></eb>']),
    ('foo.c.d', ['<ea class="c d"></ea><eb class="c d"></eb>']),
    ('foo{QZ1}', ['<ea>', 0, '</ea><eb>', 0, '</eb>']),
    ('foo/', ['<ea><eb>']),
    ('foo>ey', ['<ea></ea><eb><ey></ey></eb>']),
    ('bar[t=QZ1]>ey', ['<ea t="', 0, '"><eb></eb><ec><ey></ey></ec></ea>']),
    ('baz.c>ey{QZ1}', ['<ea class="c"><eb></eb></ea><ec u="w" class="c"><ey>', 0, '</ey></ec>']),
    ('ex>foo[t=QZ1]+bar', ['<ex><ea t="', 0, '"></ea><eb t="', 0, '"></eb><ea><eb></eb><ec></ec></ea></ex>']),
    ('baz[u=QZ1]', ['<ea u="', 0, '"><eb></eb></ea><ec u="', 0, '"></ec>']),
    # definitions whose deepest node has no written name (implied tag, bare text): children still go into it
    ('qux>ey{QZ1}', ['<div class="foo" u="w"><ey>', 0, '</ey></div>']),
    ('imp.k>ey', ['<ea class="k"><div class="in"><ey></ey></div></ea>']),
    ('txt>ey', ['hello<ey></ey>']),
    ('ex>qux*2>ey', ['<ex><div class="foo" u="w"><ey></ey></div><div class="foo" u="w"><ey></ey></div></ex>']),
    # an alias of an alias: attributes written on each level reach every top-level element exactly once
    ('nest.c.d>ey', ['<ea u="w" class="c d"></ea><eb u="w" class="c d"><ey></ey></eb>']),
    ('nest2#i[t=QZ1]', ['<ea u="w" class="k" id="i" t="', 0, '"></ea><eb u="w" class="k" id="i" t="', 0, '"></eb>']),
    ('ex>nest.c*2', ['<ex>' + '<ea u="w" class="c"></ea><eb u="w" class="c"></eb>' * 2 + '</ex>']),
]


def mk_user(ci, reverse):
    from vf.pipe import expand_injected, make_config, set_literal, Recorder, rope_eq
    abbr, shape = USER_CASES[ci]
    uses_t = 'QZ1' in abbr

    def harness(wrong):
        def h(t: str, l: int):
            if uses_t:
                if not (1 <= l <= 2) or len(t) != l:
                    return 'skip'
                if not (ascii_only(t, 256) & lb_free(t) & fold(t, lambda o: (o != 60) & (o != 36))):
                    return 'skip'
            elif l != 0 or len(t) != 0:
                return 'skip'
            rec = Recorder()
            out = expand_injected(abbr, make_config({'snippets': dict(USER), 'options': rec.options(
                {'output.format': False, 'output.reverseAttributes': reverse})}),
                (lambda toks: set_literal(toks, 'QZ1', t)) if uses_t else None)
            exp = [t if p == 0 else p for p in shape]
            if reverse and (abbr.startswith('baz') or 'nest' in abbr):
                return 'skip'      # attribute order under reverse mode is checked by C03
            if wrong:
                exp.append('!')
            r = rope_eq(rec.pieces, exp)
            return True if r is True else 'alias_data_not_applied_to_definition:' + r
        return h
    w = dict(t='x' if uses_t else '', l=1 if uses_t else 0)
    return {'fn': harness(False), 'twin': harness(True), 'witnesses': [w],
            'assumptions': ['user snippets %r; abbreviation %s; reverseAttributes=%s; payload 1..2 code points' % (USER, abbr, reverse)],
            'functions': ['markup.snippets.resolve/merge/walk_resolve', 'markup.attributes.merge_attributes']}


BODIES = ['k1', 'k2', 'k3', 'k1>k2', 'k2+k3', 'ea>k1', 'k3.c', 'ea', 'k2>k3*2']


def mk_cycles(probe):
    import sys
    import emmet
    import importlib
    ms = importlib.import_module('emmet.markup.snippets')   # `emmet.markup.snippets` the attribute is a function
    from vf.pipe import make_config
    real_parse = ms.parse

    def harness(wrong):
        def h(b1: int, b2: int, b3: int):
            if not (0 <= b1 < len(BODIES) and 0 <= b2 < len(BODIES) and 0 <= b3 < len(BODIES)):
                return 'skip'
            table = {'k1': BODIES[b1], 'k2': BODIES[b2], 'k3': BODIES[b3]}
            depth = [0]

            def counting_parse(abbr, options=None):
                f = sys._getframe(1)
                d = 0
                while f is not None:
                    if f.f_code.co_name == 'resolve' and f.f_code.co_filename.endswith('snippets.py'):
                        d += 1
                    f = f.f_back
                depth[0] = max(depth[0], d)
                return real_parse(abbr, options) if options is not None else real_parse(abbr)
            ms.parse = counting_parse
            try:
                out = emmet.expand(probe, make_config({'snippets': table, 'options': {'output.format': False}}))
            finally:
                ms.parse = real_parse
            if not isinstance(out, str):
                return 'no_result'
            if depth[0] > (2 if wrong else 3):
                return 'nesting_deeper_than_number_of_snippets'
            return True
        return h
    return {'fn': harness(False), 'twin': harness(True), 'witnesses': [dict(b1=1, b2=2, b3=0), dict(b1=0, b2=0, b3=7)],
            'assumptions': ['user table k1,k2,k3 with bodies chosen by the solver from %r; probe %s' % (BODIES, probe)],
            'functions': ['markup.snippets.resolve_snippets (cycle guard `stack`)', 'walk_resolve']}


BROKEN = ['eb[t="x', 'eb+*', 'eb)', "eb[t='"]          # definitions the parser rejects
AFTER = [('outer', '<ea><eb></eb></ea>'), ('mid', '<ec><ea><eb></eb></ea></ec>'), ('inner', '<eb></eb>'),
         ('ex>outer+inner', '<ex><ea><eb></eb></ea><eb></eb></ex>')]


def mk_after_failure():
    """A resolution that fails inside a nested snippet must not change how later calls resolve snippets."""
    import emmet
    from emmet.scanner import ScannerException
    from emmet.token_scanner import TokenScannerException
    from vf.util import untraced, pick_int
    good = {'mid': 'ec>outer', 'outer': 'ea>inner', 'inner': 'eb'}

    def harness(wrong):
        def h(bi: int, first: int, probe: int, fresh_cfg: bool):
            if not (0 <= bi < len(BROKEN) and 0 <= first <= 2 and 0 <= probe < len(AFTER)):
                return 'skip'
            bi, first, probe = pick_int(bi, 0, len(BROKEN) - 1), pick_int(first, 0, 2), pick_int(probe, 0, len(AFTER) - 1)
            with untraced():
                bad = dict(good, inner=BROKEN[bi])
                opts = {'output.format': False}
                cfg_bad = {'snippets': bad, 'options': opts}
                try:
                    emmet.expand(['inner', 'outer', 'mid'][first], cfg_bad)
                    raised = False
                except (ScannerException, TokenScannerException):
                    raised = True
                cfg = {'snippets': dict(good), 'options': dict(opts)}
                if not fresh_cfg:
                    cfg_bad['snippets'] = dict(good)      # the caller repairs the table in the same config object
                    cfg = cfg_bad
                out = emmet.expand(AFTER[probe][0], cfg)
            if not raised:
                return 'broken_definition_accepted'
            exp = AFTER[probe][1] + (' ' if wrong else '')
            return True if out == exp else 'alias_not_expanded_after_an_earlier_failure:' + AFTER[probe][0]
        return h
    return {'fn': harness(False), 'twin': harness(True), 'witnesses': [dict(bi=0, first=1, probe=0, fresh_cfg=True), dict(bi=1, first=2, probe=3, fresh_cfg=False)],
            'assumptions': ['user table mid -> outer -> inner; first call expands inner/outer/mid while `inner` has a definition from %r (raises at '
                            'nesting depth 0/1/2); second call uses the repaired table (fresh config or the same dict) and one of the probes %r; '
                            'calls are concrete per path and run outside the tracer' % (BROKEN, [a for a, _ in AFTER])],
            'functions': ['markup.snippets.resolve_snippets (cycle-guard stack across calls)', 'markup.parse']}


def jobs(tier):
    q = tier == 'quick'
    out = []
    for syn, nparts in (('html', 8), ('xsl', 2), ('pug', 1)):
        for deco in DECOS:
            for part in range(nparts):
                for fmt in ((False,) if q else (False, True)):
                    if syn == 'pug' and deco != 'none':
                        continue
                    out.append(Job('C14-a/builtin/%s/%s/fmt=%d/part%d' % (syn, deco, fmt, part), 'vf.props.c14:mk_builtin',
                                   dict(syntax=syn, deco=deco, part=part, nparts=nparts, fmt=fmt), shape='H',
                                   bound='table-exhaustive', budget=900 if q else 3000, weight=100))
    for ci in range(len(USER_CASES)):
        for rev in ((False,) if q else (False, True)):
            if rev and (USER_CASES[ci][0].startswith('baz') or 'nest' in USER_CASES[ci][0]):
                continue      # attribute order under reverse mode is C03's subject: these cases would be vacuous
            out.append(Job('C14-c/user/%s/rev=%d' % (USER_CASES[ci][0], rev), 'vf.props.c14:mk_user', dict(ci=ci, reverse=rev),
                           shape='H', bound='3 user snippets', budget=600, weight=20))
    out.append(Job('C14-d/after-failure', 'vf.props.c14:mk_after_failure', {}, shape='H', bound='4 broken bodies x 3 depths x 4 probes x 2',
                   budget=900, weight=150))
    for probe in ('k1', 'k1>k2', 'k3*2+k1'):
        out.append(Job('C14-b/cycles/%s' % probe, 'vf.props.c14:mk_cycles', dict(probe=probe), shape='H',
                       bound='729 tables', budget=1500, weight=400))
    return out
