"""C12 - formatting options are cosmetic and indentation equals nesting depth."""
import re

from vf.job import Job
from vf.util import lb_free, ascii_only, fold

META = {
    'rule': 'Differential H-harness: the same abbreviation template is expanded by the real expand() under two option sets; '
            'indent/newline/baseIndent are sentinel strings so that formatter whitespace is recognisable; inlineBreak, repeat '
            'counts and a text/attribute payload are symbolic [S]; other options are solver-decided selectors [C].',
    'bounds': {
        'quick': '22 templates (block, inline, text, snippets, groups, void elements) x 6 syntaxes of the HTML writer; '
                 'inlineBreak any integer, formatLeafNode both, formatSkip/formatForce from 3 choices each, repeat count 1..3, '
                 'payload 1..2 chars; comments on/off; three self-closing styles',
        'thorough': 'the same with repeat count 1..4 and a second family of 20 generated skeletons',
    },
    'outside_claim': ['payloads with line breaks or starting with `<` (text that looks like a block tag is put on its own line '
                      'even with formatting off)', 'text nodes with children / fields (snippet re-flow with lstrip)',
                      'compactBoolean across self-closing styles', 'abbreviations outside the template family'],
    'stubs': ['tokenization of the concrete template string runs outside the tracer (same real function)',
              'Config object is constructed outside the tracer from concrete options'],
}

IND, NL, BASE = '\x01', '\x02', '\x03'
SENT = IND + NL + BASE

TEMPLATES = [
    'ex>ey>ez', 'ex>ey+ez', 'ex>(ey>ez)*901+ew', 'ex>em+strong+ey', 'ex>em*901', 'p>em+em+em+em', 'ex>em>ey',
    'ex{QZ1}>ey', 'ex>{QZ1}+{b}', 'ex#i.c>ey.d', 'ul>li.it*901>a', 'ex>br/+ey', 'html>body>ex', 'ex>ey[t=QZ1]/',
    'ex>img+em', '(ex>ey)+(ez>em)*901', 'ex>ey^ez>em', 'table>tr*901>td*2', 'ex>ey{QZ1}+em{b}', 'body>ex+ey',
    'ex>{[${1}${2:x}]}>ey*901', '{if ${1}${2:c} then}>ex+ey',
    # deeper nesting: five and six open elements, climbing back, repeated groups at depth 3
    'ex>ey>ez>ew>ev>eu', 'ex>ey>(ez>ew+ev)*901>eu', 'ex>ey>ez>ew^^ev>eu+em', 'ex>ey>ez*901>ew>ev{QZ1}',
]
XSL_TEMPLATES = ['xsl:variable[name=a select=b]>ex', 'tm>ch>wh+ot', 'vare>ex{QZ1}', 'xsl:with-param[name=a select=b]{QZ1}',
                 'ex>wp*901']
SKIPS = [[], ['html'], ['ex']]
FORCES = [[], ['body'], ['ey']]


def strip_sentinels(pieces):
    from vf.pipe import _is_concrete
    out = []
    for p in pieces:
        if _is_concrete(p):
            q = p.replace(IND, '').replace(NL, '').replace(BASE, '')
            if q:
                out.append(q)
        else:
            out.append(p)
    return out


def payload_ok(t, l):
    if not (1 <= l <= 2) or len(t) != l:
        return False
    ok = ascii_only(t, 256) & lb_free(t) & fold(t, lambda o: (o != 60) & (o > 3))
    return True if ok else False


def run_expand(abbr, syntax, opts, r, t):
    from vf.pipe import expand_injected, make_config, set_literal, set_repeat, Recorder
    rec = Recorder()

    def edit(toks):
        if '*901' in abbr:
            set_repeat(toks, 901, r)
        if 'QZ1' in abbr:
            set_literal(toks, 'QZ1', t)
    out = expand_injected(abbr, make_config({'syntax': syntax, 'options': rec.options(opts)}), edit)
    return out, rec.pieces


def mk_cosmetic(ti, syntax):
    from vf.pipe import rope_eq
    abbr = (XSL_TEMPLATES if syntax == 'xsl' else TEMPLATES)[ti]
    uses_r, uses_t = '*901' in abbr, 'QZ1' in abbr

    def harness(wrong):
        def h(inline_break: int, leaf: bool, skip: int, force: int, r: int, t: str, l: int):
            if not (0 <= skip < len(SKIPS) and 0 <= force < len(FORCES)):
                return 'skip'
            if uses_r:
                if not (1 <= r <= 3):
                    return 'skip'
            elif r != 1:
                return 'skip'
            if uses_t:
                if not payload_ok(t, l):
                    return 'skip'
            elif l != 0 or len(t) != 0:
                return 'skip'
            off = {'output.format': False}
            on = {'output.format': True, 'output.indent': IND, 'output.newline': NL, 'output.baseIndent': BASE,
                  'output.inlineBreak': inline_break, 'output.formatLeafNode': leaf,
                  'output.formatSkip': SKIPS[skip], 'output.formatForce': FORCES[force]}
            out_a, pa = run_expand(abbr, syntax, off, r, t)
            out_b, pb = run_expand(abbr, syntax, on, r, t)
            a, b = strip_sentinels(pa), strip_sentinels(pb)
            if wrong:
                b = b + ['!']
            res = rope_eq(b, a)
            if res is not True:
                return 'content_changed_by_formatting:' + res
            if len(out_b) != sum([len(p) for p in pb]):
                return 'returned_string_is_not_the_pushed_text'
            return True
        return h
    w = dict(inline_break=3, leaf=False, skip=1, force=1, r=2 if uses_r else 1, t='x' if uses_t else '', l=1 if uses_t else 0)
    w2 = dict(w, inline_break=0, leaf=True, skip=2, force=2)
    return {'fn': harness(False), 'twin': harness(True), 'witnesses': [w, w2],
            'assumptions': ['template %s, syntax %s; indent/newline/baseIndent are the sentinel strings \\x01 \\x02 \\x03; '
                            'inlineBreak any integer; repeat count 1..3; payload 1..2 code points in (3,256) without line breaks '
                            'or `<`' % (abbr, syntax)],
            'functions': ['format.html.element/should_format/get_indent/push_attribute/push_snippet', 'OutputStream.push_newline/'
                          'push_indent/push_string', 'format.comment.*', 'markup.addon.xsl.xsl']}


TAG = re.compile(r'<!--.*?-->|<(/?)([\w:.-]+)([^<>]*?)(/?)>', re.S)


def depth_violations(out):
    """Walk a concrete output string; at every newline sentinel check base + depth indents."""
    events = []          # (pos, 'open'|'close'|'void')
    for m in TAG.finditer(out):
        if m.group(0).startswith('<!--'):
            continue
        if m.group(1):
            events.append((m.start(), m.end(), 'close'))
        elif m.group(4):
            events.append((m.start(), m.end(), 'void'))
        else:
            events.append((m.start(), m.end(), 'open'))
    i = 0
    depth = 0
    ei = 0
    while True:
        j = out.find(NL, i)
        if j == -1:
            return True
        while ei < len(events) and events[ei][1] <= j:
            if events[ei][2] == 'open':
                depth += 1
            elif events[ei][2] == 'close':
                depth -= 1
            ei += 1
        k = j + 1
        if out[k:k + 1] != BASE:
            return 'line_without_base_indent'
        k += 1
        n = 0
        while out[k:k + 1] == IND:
            n += 1
            k += 1
        expect = depth
        # a closing tag on its own line is aligned with its opening tag
        if ei < len(events) and events[ei][0] == k and events[ei][2] == 'close':
            expect = depth - 1
        if n != expect:
            return 'indent_%d_at_depth_%d' % (n, expect)
        i = j + 1


def mk_depth(ti, syntax, style):
    abbr = (XSL_TEMPLATES if syntax == 'xsl' else TEMPLATES)[ti]
    uses_r, uses_t = '*901' in abbr, 'QZ1' in abbr

    def harness(wrong):
        def h(inline_break: int, leaf: bool, force: int, r: int):
            if not (0 <= force < len(FORCES)):
                return 'skip'
            if uses_r:
                if not (1 <= r <= 3):
                    return 'skip'
            elif r != 1:
                return 'skip'
            on = {'output.format': True, 'output.indent': IND, 'output.newline': NL, 'output.baseIndent': BASE,
                  'output.inlineBreak': inline_break, 'output.formatLeafNode': leaf, 'output.selfClosingStyle': style,
                  'output.formatSkip': [], 'output.formatForce': FORCES[force]}
            out, _ = run_expand(abbr, syntax, on, r, 'tx')
            if wrong:
                out = out.replace(NL + BASE, NL + BASE + IND, 1) if NL in out else out + NL
            return depth_violations(out)
        return h
    w = dict(inline_break=3, leaf=False, force=1, r=2 if uses_r else 1)
    return {'fn': harness(False), 'twin': harness(True), 'witnesses': [w, dict(w, leaf=True, inline_break=1)],
            'assumptions': ['template %s, syntax %s, selfClosingStyle %s, output.formatSkip empty (no element exempted); sentinel '
                            'indent strings; inlineBreak any integer; repeat count 1..3; text payload concrete' % (abbr, syntax, style)],
            'functions': ['format.html.element/should_format/get_indent', 'OutputStream.push_newline/push_indent']}


COMMENT = re.compile(r'<!--.*?-->', re.S)


def mk_comments(ti, syntax):
    abbr = (XSL_TEMPLATES if syntax == 'xsl' else TEMPLATES)[ti]
    uses_r = '*901' in abbr

    def harness(wrong):
        def h(inline_break: int, fmt: bool, r: int, custom: bool):
            if uses_r:
                if not (1 <= r <= 3):
                    return 'skip'
            elif r != 1:
                return 'skip'
            base = {'output.format': fmt, 'output.indent': IND, 'output.newline': NL, 'output.baseIndent': BASE,
                    'output.inlineBreak': inline_break}
            on = {'comment.enabled': True}
            if custom:
                # user templates with line breaks inside the conditional placeholders: they must go through output.newline too
                on.update({'comment.after': '[\n<!-- /#ID -->][\n<!-- /.CLASS -->]', 'comment.before': '[<!-- #ID -->\n]'})
            a, _ = run_expand(abbr, syntax, dict(base, **{'comment.enabled': False}), r, 'tx')
            b, _ = run_expand(abbr, syntax, dict(base, **on), r, 'tx')
            b2 = COMMENT.sub('', b)
            if wrong:
                b2 = b2 + '!'
            for ch in SENT:
                a = a.replace(ch, '')
                b2 = b2.replace(ch, '')
            return True if a == b2 else 'comments_changed_content'
        return h
    w = dict(inline_break=3, fmt=True, r=2 if uses_r else 1, custom=False)
    return {'fn': harness(False), 'twin': harness(True), 'witnesses': [w, dict(w, fmt=False), dict(w, custom=True)],
            'assumptions': ['template %s, syntax %s; comment.enabled on vs off with default templates or user templates that contain line breaks; comment tokens '
                            '<!--...--> and sentinel whitespace are removed before comparing' % (abbr, syntax)],
            'functions': ['format.comment.should_comment/comment_node_before/comment_node_after/output', 'markup.addon.xsl.xsl']}


def mk_selfclose(ti, syntax):
    abbr = (XSL_TEMPLATES if syntax == 'xsl' else TEMPLATES)[ti]
    uses_r = '*901' in abbr

    def harness(wrong):
        def h(inline_break: int, fmt: bool, r: int):
            if uses_r:
                if not (1 <= r <= 3):
                    return 'skip'
            elif r != 1:
                return 'skip'
            outs = []
            for style in ('html', 'xhtml', 'xml'):
                o, _ = run_expand(abbr, syntax, {'output.format': fmt, 'output.inlineBreak': inline_break,
                                                 'output.selfClosingStyle': style}, r, 'tx')
                outs.append(o.replace(' />', '>').replace('/>', '>'))
            if wrong:
                outs[2] = outs[2] + '!'
            return True if outs[0] == outs[1] == outs[2] else 'self_closing_style_changed_content'
        return h
    w = dict(inline_break=3, fmt=True, r=2 if uses_r else 1)
    return {'fn': harness(False), 'twin': harness(True), 'witnesses': [w],
            'assumptions': ['template %s, syntax %s; outputs under selfClosingStyle html/xhtml/xml compared after replacing ` />` '
                            'and `/>` by `>`' % (abbr, syntax)],
            'functions': ['format.html.element', 'output_stream.self_close', 'format.html.push_attribute']}


def jobs(tier):
    q = tier == 'quick'
    out = []
    syntaxes = ['html', 'xml', 'jsx', 'vue', 'svelte']
    for ti in range(len(TEMPLATES)):
        for syn in (syntaxes if not q else ['html'] + [syntaxes[1 + ti % 4]]):
            out.append(Job('C12-a/cosmetic/%s/t%02d' % (syn, ti), 'vf.props.c12:mk_cosmetic', dict(ti=ti, syntax=syn),
                           shape='H', bound='template', budget=900 if q else 3000, weight=60))
        out.append(Job('C12-b/depth/html-xhtml/t%02d' % ti, 'vf.props.c12:mk_depth', dict(ti=ti, syntax='html', style='xhtml'),
                       shape='H', bound='template', budget=900, weight=40))
        out.append(Job('C12-c/comments/html/t%02d' % ti, 'vf.props.c12:mk_comments', dict(ti=ti, syntax='html'),
                       shape='H', bound='template', budget=900, weight=40))
        out.append(Job('C12-d/selfclose/html/t%02d' % ti, 'vf.props.c12:mk_selfclose', dict(ti=ti, syntax='html'),
                       shape='H', bound='template', budget=900, weight=40))
    for ti in range(len(XSL_TEMPLATES)):
        out.append(Job('C12-a/cosmetic/xsl/t%02d' % ti, 'vf.props.c12:mk_cosmetic', dict(ti=ti, syntax='xsl'), shape='H',
                       bound='template', budget=900, weight=60))
        out.append(Job('C12-b/depth/xsl/t%02d' % ti, 'vf.props.c12:mk_depth', dict(ti=ti, syntax='xsl', style='xml'),
                       shape='H', bound='template', budget=900, weight=40))
        out.append(Job('C12-c/comments/xsl/t%02d' % ti, 'vf.props.c12:mk_comments', dict(ti=ti, syntax='xsl'), shape='H',
                       bound='template', budget=900, weight=40))
    return out
