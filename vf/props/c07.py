"""C07 - expand fails only with its parse errors, never with an internal error."""
from vf.job import Job
from vf.props.common import ascii_partitions, in_partition

META = {
    'rule': 'C07-a: W-harness, every ASCII string of the stated length through the whole real expand() under the engine; C07-b: '
            'abbreviations assembled from K solver-chosen multi-character pieces (every token class of both languages) so that longer '
            'inputs are reached without paying for tokenizer paths; oracle = returns str, or raises ScannerException / '
            'TokenScannerException whose pos is None or within the input.',
    'bounds': {
        'quick': 'whole expand(): all ASCII strings len<=2 under 3 markup configurations (default, jsx, wrap text list); stylesheet '
                 'tokenizer+parser: all ASCII strings len<=2 in both modes; whole expand() on all sequences '
                 'of <=3 pieces from a 39-piece markup alphabet / 31-piece stylesheet alphabet (incl. function openers after names, keywords and numbers) under the default configurations and '
                 'of <=2 pieces under 15 more configurations (jsx, wrap text, BEM+comments, context, xml, pug, haml, slim, xsl, stylus, '
                 'json, value/section context)',
        'thorough': 'len<=2 under all 11 markup configurations, len 3 for default markup; stylesheet parser len<=3; <=3 pieces under all 17 configurations',
    },
    'outside_claim': ['whole-expand of stylesheet abbreviations with symbolic characters (the fuzzy matcher computes a float score per '
                      'snippet key: the solver does not return; measured). Stylesheet expand() is covered on concrete piece sequences',
                      'strings longer than the bound outside the piece language', 'the random text produced by lorem (stubbed)',
                      'mutation of long valid abbreviations', 'code points >= 128'],
    'stubs': ['random.randint as used by markup/lorem is a deterministic cycling counter (lorem text is random by design)', 'C07-b: tokenization of the (per path concrete) abbreviation runs outside the tracer - same real function, identical tokens',
              'Config objects are built outside the tracer; stylesheet snippet table converted once per path outside the tracer and '
              'passed through the documented cache option'],
}

CONFIGS = {
    'markup-default': {},
    'markup-jsx': {'syntax': 'jsx'},
    'markup-text-list': {'text': ['ab', '', ' c ']},
    'markup-text-str': {'text': 'ab c'},
    'markup-bem-comments': {'options': {'bem.enabled': True, 'comment.enabled': True}},
    'markup-context': {'context': {'name': 'ul', 'attributes': {'class': 'b'}}, 'options': {'bem.enabled': True}},
    'markup-context-noblock': {'context': {'name': 'ul'}, 'options': {'bem.enabled': True}},
    'markup-xml': {'syntax': 'xml'},
    'markup-pug': {'syntax': 'pug'},
    'markup-haml': {'syntax': 'haml'},
    'markup-slim': {'syntax': 'slim'},
    'markup-xsl': {'syntax': 'xsl'},
    'css-default': {'type': 'stylesheet'},
    'css-stylus': {'type': 'stylesheet', 'syntax': 'stylus'},
    'css-json': {'type': 'stylesheet', 'options': {'stylesheet.json': True}},
    'css-value-context': {'type': 'stylesheet', 'context': {'name': 'padding'}},
    'css-section-context': {'type': 'stylesheet', 'context': {'name': '@@section'}},
}

M_PIECES = ['a', 'Ab', '$', '$$@-', '$@^^', '$@3', '$#', '*', '*3', '>', '+', '^', '(', ')', '[', ']', '{', '}', '.', '#', '/', '=',
            '"', "'", ' ', '${1}', '${a}', '${2:x}', '\\', '!', ':', '-', '@', '1', '={', '${', '_m', 'lorem', 'lorem2']
C_PIECES = ['p', '10', '-', '#', 'f', '.5', '!', '+', '(', ')', ',', ':', '"', "'", '$', '@', '${1}', 'lg', ' ', '%', '/', '--', 't',
            'e', '${a}', 'x', 'a(', '1(', 'p:', 'b(', 's(']


def make_cfg(name):
    import copy
    from vf.pipe import make_config, make_css_config
    user = copy.deepcopy(CONFIGS[name])
    return make_css_config(user) if user.get('type') == 'stylesheet' else make_config(user)


def verdict(fn, n):
    from emmet.scanner import ScannerException
    from emmet.token_scanner import TokenScannerException
    try:
        out = fn()
    except (ScannerException, TokenScannerException) as e:
        if e.pos is None or 0 <= e.pos <= n:
            return True
        return 'error_position_outside_input'
    return True if isinstance(out, str) else 'result_is_not_a_string'


def mk_chars(L, lo, hi, cfg):
    import emmet

    def h(s: str):
        if not in_partition(s, L, lo, hi):
            return 'skip'
        c = make_cfg(cfg)
        return verdict(lambda: emmet.expand(s, c), len(s))

    def twin(s: str):
        if not in_partition(s, L, lo, hi):
            return 'skip'
        r = h(s)
        return 'twin' if r is True else r
    wit = [{'s': w} for w in ['', 'a', 'a>', '$#', '[.', '{*', 'p1', '()', '\\', '*', 'a*'] if len(w) == L and
           (not w or lo <= ord(w[0]) < hi)]
    return {'fn': h, 'twin': twin, 'witnesses': wit,
            'assumptions': ['s ASCII, len(s)==%d, ord(s[0]) in [%d,%d); configuration %s = %r' % (L, lo, hi, cfg, CONFIGS[cfg])],
            'functions': ['emmet.expand and everything below it (tokenizer, parser, convert, stringify, snippets, transforms, formatters)']}


def mk_css_parse(L, lo, hi, value_mode):
    """stylesheet tokenizer + parser on every short string (the fuzzy snippet matcher makes whole-expand with symbolic
    characters unreachable for the solver: float scores per snippet key; the matcher is reached by C07-b and C06)"""
    from emmet.css_abbreviation import parse

    def h(s: str):
        if not in_partition(s, L, lo, hi):
            return 'skip'
        from emmet.scanner import ScannerException
        from emmet.token_scanner import TokenScannerException
        try:
            out = parse(s, {'value': value_mode})
        except (ScannerException, TokenScannerException) as e:
            return True if (e.pos is None or 0 <= e.pos <= len(s)) else 'error_position_outside_input'
        return True if isinstance(out, list) else 'result_is_not_a_list'

    def twin(s: str):
        r = h(s)
        return 'twin' if r is True else r
    wit = [{'s': w} for w in ['', 'p', 'p1', '#f', ')', '(', 'a(', '--', '!', '$a'] if len(w) == L and (not w or lo <= ord(w[0]) < hi)]
    return {'fn': h, 'twin': twin, 'witnesses': wit,
            'assumptions': ['s ASCII, len(s)==%d, ord(s[0]) in [%d,%d); value mode %s' % (L, lo, hi, value_mode)],
            'functions': ['css_abbreviation.parse', 'tokenizer.tokenize', 'parser.parser/consume_property/consume_value/consume_arguments']}


def mk_pieces(K, cfg, first):
    import importlib
    lorem_mod = importlib.import_module('emmet.markup.lorem')
    _ctr = [0]

    def _randint(a, b):
        # lorem text is random by design; a deterministic cycling stub keeps the engine's replays deterministic (a constant
        # would make lorem's own `sample()` loop forever)
        _ctr[0] += 1
        return a + _ctr[0] % (b - a + 1)
    lorem_mod.randint = _randint
    from vf.pipe import expand_concrete_tokens
    pieces = C_PIECES if cfg.startswith('css') else M_PIECES
    P = len(pieces)

    def harness(wrong):
        def h(k1: int, k2: int, k3: int):
            ks = [first]
            for k in [k1, k2, k3][:K - 1]:
                if not (-1 <= k < P):
                    return 'skip'
                ks.append(k)
            for k in [k1, k2, k3][K - 1:]:
                if k != -1:
                    return 'skip'
            # -1 = no piece; only trailing
            seen_end = False
            for k in ks:
                if k == -1:
                    seen_end = True
                elif seen_end:
                    return 'skip'
            s = ''.join([pieces[k] for k in ks if k >= 0])
            c = make_cfg(cfg)
            r = verdict(lambda: expand_concrete_tokens(s, c), len(s))
            if wrong:
                return 'twin' if r is True else r
            return r
        return h
    return {'fn': harness(False), 'twin': harness(True), 'witnesses': [dict(k1=0, k2=-1, k3=-1), dict(k1=9 if K > 1 else -1, k2=0 if K > 2 else -1, k3=-1)],
            'assumptions': ['abbreviation = concatenation of <=%d pieces, piece 0 = %r, the others solver-chosen from %r; configuration '
                            '%s = %r' % (K, pieces[first], pieces, cfg, CONFIGS[cfg])],
            'functions': ['abbreviation.parser.*', 'convert.*', 'stringify.*', 'markup.snippets', 'markup.addon.*', 'markup.format.*',
                          'css_abbreviation.parser.*', 'stylesheet.*']}


def jobs(tier):
    q = tier == 'quick'
    out = []
    char_cfgs = ['markup-default', 'markup-jsx', 'markup-text-list'] if q else [c for c in CONFIGS if not c.startswith('css')]
    for vm in (False, True):
        for (L, lo, hi) in ascii_partitions(2 if q else 3, split_from=2):
            out.append(Job('C07-a/css-parse/value=%d/len=%d,c0=[%d,%d)' % (vm, L, lo, hi), 'vf.props.c07:mk_css_parse',
                           dict(L=L, lo=lo, hi=hi, value_mode=vm), shape='W', bound='ASCII len=%d' % L, budget=1500 if q else 4000,
                           weight=40 ** L))
    for cfg in char_cfgs:
        for (L, lo, hi) in ascii_partitions(2, split_from=2):
            out.append(Job('C07-a/chars/%s/len=%d,c0=[%d,%d)' % (cfg, L, lo, hi), 'vf.props.c07:mk_chars',
                           dict(L=L, lo=lo, hi=hi, cfg=cfg), shape='W', bound='ASCII len=%d' % L, budget=1500, weight=60 ** L))
    if not q:
        for cfg in ('markup-default',):
            for (L, lo, hi) in ascii_partitions(3, split_from=3):
                if L == 3:
                    step = max(1, (hi - lo) // 3)
                    for a in range(lo, hi, step):
                        out.append(Job('C07-a/chars/%s/len=3,c0=[%d,%d)' % (cfg, a, min(hi, a + step)), 'vf.props.c07:mk_chars',
                                       dict(L=3, lo=a, hi=min(hi, a + step), cfg=cfg), shape='W', bound='ASCII len=3',
                                       budget=6000, weight=60 ** 3))
    for cfg in CONFIGS:
        K = 3 if (not q or cfg in ('markup-default', 'css-default', 'markup-context-noblock')) else 2
        pieces = C_PIECES if cfg.startswith('css') else M_PIECES
        for first in range(len(pieces)):
            out.append(Job('C07-b/pieces/%s/K=%d,p0=%02d' % (cfg, K, first), 'vf.props.c07:mk_pieces', dict(K=K, cfg=cfg, first=first),
                           shape='H', bound='<=%d pieces' % K, budget=1500, weight=300))
    return out
