"""C01 - markup expansion reproduces the element tree the operators denote."""
from vf.job import Job

META = {
    'rule': 'H-harness: operator skeleton chosen item by item by solver-decided selectors [C], repeat counts are '
            'symbolic ints [S]; the abbreviation string goes through the real tokenizer and the whole real '
            'expand() pipeline; oracle = reference tree builder + 10-line serialiser, compared as strings.',
    'bounds': {
        'quick': 'all well-formed skeletons of <=5 items over {el, el*R, el/, >, +, ^, (, ), )*R}, R in 1..3 symbolic '
                 '(one count for elements, one for groups), selfClosingStyle html/xhtml/xml, format off and on; '
                 'deep chains: 6 elements joined by every sequence of {>, +, ^, ^^, ^^^, ^^^^} (plain, inside a group, inside a repeated group below a parent); '
                 'implicit names: 17 parent contexts x 14 templates (html and xml self-closing style; nameless elements with text and children included) (below a parent, and at the top level after a sibling/group/climb)',
        'thorough': 'the same for <=7 items; chains of 7 elements',
    },
    'outside_claim': ['a child operator applied to a group `(..)>x` (not defined by the property)',
                      'skeletons with more items than the bound', 'repeat counts > 3 (C02 covers the counter kernel)',
                      'element names that are snippets/inline elements (C14, C12)', 'random large abbreviations'],
    'stubs': ['tokenization of the concrete template string runs outside the tracer (same real function)',
              'Config object is constructed outside the tracer from concrete options'],
}

EL, ELR, ELC, CH, SIB, UP, GO, GC, GCR, END = range(10)
NK = 10


class Skip(Exception):
    pass


class Node:
    def __init__(self, name, rep=None, close=False):
        self.name, self.rep, self.close, self.children = name, rep, close, []


class Group:
    def __init__(self, rep=None):
        self.rep, self.children = rep, []


def ref_build(items):
    """Reference semantics of > + ^ ( ) from the property text.  items: list of
    ('el', name, rep, close) | '>' | '+' | '^' | '(' | (')', rep)."""
    pos = [0]

    def statements():
        top = []
        ctx = top
        stack = []
        while pos[0] < len(items):
            it = items[pos[0]]
            if isinstance(it, tuple) and it[0] == 'el':
                node = Node(it[1], it[2], it[3])
                pos[0] += 1
            elif it == '(':
                pos[0] += 1
                node = Group()
                node.children = statements()
                closing = items[pos[0]]
                node.rep = closing[1]
                pos[0] += 1
            else:
                break
            ctx.append(node)
            if pos[0] >= len(items):
                break
            nxt = items[pos[0]]
            if nxt == '>':
                if isinstance(node, Group):
                    raise Skip()
                stack.append(ctx)
                ctx = node.children
                pos[0] += 1
            elif nxt == '+':
                pos[0] += 1
            elif nxt == '^':
                while pos[0] < len(items) and items[pos[0]] == '^':
                    pos[0] += 1
                    if stack:
                        ctx = stack.pop()
        return top
    return statements()


def ref_render(nodes, sc):
    out = []
    for n in nodes:
        if isinstance(n, Group):
            for _ in range(n.rep or 1):
                out.append(ref_render(n.children, sc))
        else:
            for _ in range(n.rep or 1):
                if n.close and not n.children:
                    out.append('<%s%s>' % (n.name, sc))
                else:
                    out.append('<%s>%s</%s>' % (n.name, ref_render(n.children, sc), n.name))
    return ''.join(out)


def wellformed_step(kinds):
    """Incremental grammar check on the prefix `kinds`; returns False as soon as the prefix cannot be
    completed to: seq := unit (op unit)* ; unit := el | '(' seq ')' ; no group followed by '>'."""
    depth = 0
    prev = None   # None | 'unit' | 'op' | 'open' | 'groupend' | 'end' | 'climb' | 'closeel'
    for k in kinds:
        if prev == 'end':
            if k != END:
                return False
            continue
        if k in (EL, ELR, ELC):
            if prev in ('unit', 'groupend', 'closeel'):
                return False
            prev = 'closeel' if k == ELC else 'unit'
        elif k == GO:
            if prev in ('unit', 'groupend', 'closeel'):
                return False
            depth += 1
            prev = 'open'
        elif k in (GC, GCR):
            if depth == 0 or prev not in ('unit', 'groupend', 'closeel'):
                return False
            depth -= 1
            prev = 'groupend'
        elif k == CH:
            if prev not in ('unit', 'closeel'):
                return False       # after a group: undefined by the property
            prev = 'op'
        elif k == SIB:
            if prev not in ('unit', 'groupend', 'closeel'):
                return False
            prev = 'op'
        elif k == UP:
            if prev not in ('unit', 'groupend', 'closeel', 'climb'):
                return False
            prev = 'climb'
        elif k == END:
            if depth != 0 or prev not in ('unit', 'groupend', 'closeel'):
                return False
            prev = 'end'
    return True


def complete(kinds):
    depth = 0
    for k in kinds:
        if k == GO:
            depth += 1
        elif k in (GC, GCR):
            depth -= 1
    last = [k for k in kinds if k != END]
    return depth == 0 and bool(last) and last[-1] in (EL, ELR, ELC, GC, GCR)


def mk_structure(K, style, fmt, first):
    """`first` = concrete kind of item 0 (partition: EL, ELR, ELC or GO)."""
    from vf.pipe import expand_injected, make_config, set_repeat
    sc = {'html': '', 'xhtml': ' /', 'xml': '/'}[style]
    user = {'options': {'output.selfClosingStyle': style, 'output.format': fmt,
                        'output.indent': '\x01', 'output.newline': '\x02'}}

    def run(kinds, r1, r2, wrong=False):
        items, parts = [], []
        n = 0
        uses1 = uses2 = False
        for k in kinds:
            if k == END:
                break
            if k in (EL, ELR, ELC):
                n += 1
                name = 'x%d' % n
                items.append(('el', name, r1 if k == ELR else None, k == ELC))
                parts.append(name + ('*901' if k == ELR else '/' if k == ELC else ''))
                uses1 = uses1 or k == ELR
            elif k == CH:
                items.append('>'); parts.append('>')
            elif k == SIB:
                items.append('+'); parts.append('+')
            elif k == UP:
                items.append('^'); parts.append('^')
            elif k == GO:
                items.append('('); parts.append('(')
            elif k == GC:
                items.append((')', None)); parts.append(')')
            elif k == GCR:
                items.append((')', r2)); parts.append(')*902')
                uses2 = True
        abbr = ''.join(parts)
        try:
            tree = ref_build(items)
        except Skip:
            return 'skip'
        expected = ref_render(tree, sc)
        if wrong:
            expected = expected + '<x1></x1>'

        def edit(toks):
            if uses1:
                set_repeat(toks, 901, r1)
            if uses2:
                set_repeat(toks, 902, r2)
        out = expand_injected(abbr, make_config(user), edit)
        if fmt:
            out = out.replace('\x01', '').replace('\x02', '')
        return True if out == expected else 'tree_differs'

    def harness(wrong):
        def h(k1: int, k2: int, k3: int, k4: int, k5: int, k6: int, r1: int, r2: int):
            ks = [first]
            for k in [k1, k2, k3, k4, k5, k6][:K - 1]:
                if not (0 <= k < NK):
                    return 'skip'
                ks.append(k)
                if not wellformed_step(ks):
                    return 'skip'
            if not complete(ks):
                return 'skip'
            if not (1 <= r1 <= 3 and 1 <= r2 <= 3):
                return 'skip'
            if ELR not in ks and r1 != 1:
                return 'skip'
            if GCR not in ks and r2 != 1:
                return 'skip'
            return run(ks, r1, r2, wrong)
        return h
    wit_abbr = {
        EL: [[EL, CH, EL, SIB, EL], [EL, CH, EL, UP, EL], [EL, SIB, EL, END, END]],
        ELR: [[ELR, CH, EL, END, END]],
        ELC: [[ELC, SIB, EL, END, END]],
        GO: [[GO, EL, SIB, EL, GCR], [GO, EL, GC, SIB, EL]],
    }[first]
    wit = []
    for ks in wit_abbr:
        ks = (ks + [END] * 7)[:K] if len(ks) >= K else ks + [END] * (K - len(ks))
        if not (wellformed_step(ks) and complete(ks)):
            continue
        w = {'k%d' % i: (ks[i] if i < K else END) for i in range(1, 7)}
        w.update(r1=2 if ELR in ks else 1, r2=3 if GCR in ks else 1)
        wit.append(w)
    return {'fn': harness(False), 'twin': harness(True), 'witnesses': wit,
            'assumptions': ['item 0 is kind %d; items 1..%d are solver-chosen kinds; element i is named x<i>; repeat '
                            'counts r1 (elements) and r2 (groups) in 1..3; selfClosingStyle=%s format=%s with sentinel '
                            'indent/newline strings removed before comparison' % (first, K - 1, style, fmt)],
            'functions': ['emmet.expand', 'abbreviation.parser.statements/group/element', 'convert.*',
                          'markup.parse', 'format.html.element', 'format.walk.walk', 'OutputStream']}


# nameless elements at the top level, reached by +, by a group or by climbing out: always `div`
TOP_TEMPLATES = ['P+[a]', 'P>ex^[a]', '(P>[a]*901)+.c', 'P>[a]^^.c', '(P+em)+[a]', 'P*901+.c']

PARENTS = [('ul', 'li'), ('ol', 'li'), ('table', 'tr'), ('tbody', 'tr'), ('thead', 'tr'), ('tfoot', 'tr'),
           ('tr', 'td'), ('select', 'option'), ('optgroup', 'option'), ('p', 'span'), ('em', 'span'),
           ('a', 'span'), ('strong', 'span'), ('section', 'div'), ('div', 'div'), ('x1', 'div'), (None, 'div')]
IMPL_TEMPLATES = ['P>[a]', 'P>.c', 'P>(.c+[a])*902', 'P*901>[a]', 'P>[a]*901', 'P>#i+.c', 'P>.c{t}>ex', 'P>[a]{t}>ex+ey']


def mk_implicit(ti, style='html'):
    from vf.pipe import expand_injected, make_config, set_repeat
    tpl = (IMPL_TEMPLATES + TOP_TEMPLATES)[ti]
    user = {'options': {'output.format': False, 'output.selfClosingStyle': style}}

    def expected(parent, child, r, wrong=False):
        def el(name, attrs, inner=''):
            return '<%s%s>%s</%s>' % (name, attrs, inner, name)
        if wrong:
            child = child + 'x'
        a, c, i = ' a=""', ' class="c"', ' id="i"'
        if tpl == 'P>[a]':
            body, pr = el(child, a), 1
        elif tpl == 'P>.c':
            body, pr = el(child, c), 1
        elif tpl == 'P>(.c+[a])*902':
            body, pr = (el(child, c) + el(child, a)) * r, 1
        elif tpl == 'P*901>[a]':
            body, pr = el(child, a), r
        elif tpl == 'P>[a]*901':
            body, pr = el(child, a) * r, 1
        elif tpl == 'P>#i+.c':
            body, pr = el(child, i) + el(child, c), 1
        elif tpl == 'P>.c{t}>ex':
            # a nameless element with text keeps its children inside (text precedes them)
            body, pr = el(child, c, 't' + el('ex', '')), 1
        elif tpl == 'P>[a]{t}>ex+ey':
            body, pr = el(child, a, 't' + el('ex', '') + el('ey', '')), 1
        else:
            # top-level templates: the nameless element is a `div` whatever came before it
            top = 'divx' if wrong else 'div'
            pattrs = {'a': ' href=""', 'select': ' name="" id=""'}.get(parent, '')
            P = lambda inner='': el(parent, pattrs, inner)
            if tpl == 'P+[a]':
                return P() + el(top, a)
            if tpl == 'P>ex^[a]':
                return P(el('ex', '')) + el(top, a)
            if tpl == '(P>[a]*901)+.c':
                return P(el(child, a) * r) + el(top, c)
            if tpl == 'P>[a]^^.c':
                return P(el(child, a)) + el(top, c)
            if tpl == '(P+em)+[a]':
                return P() + el('em', '') + el(top, a)
            return P() * r + el(top, c)
        if parent is None:
            return body * pr
        # `a` and `select` are built-in snippets that add their own attributes to the parent
        pattrs = {'a': ' href=""', 'select': ' name="" id=""'}.get(parent, '')
        return el(parent, pattrs, body) * pr

    def harness(wrong):
        def h(p: int, r: int):
            if not (0 <= p < len(PARENTS)):
                return 'skip'
            if not (1 <= r <= 3):
                return 'skip'
            if '90' not in tpl and r != 1:
                return 'skip'
            parent, child = PARENTS[p]
            if parent is None:
                if tpl.startswith('P*') or tpl in TOP_TEMPLATES:
                    return 'skip'
                abbr = tpl[2:]
            else:
                abbr = tpl.replace('P', parent)

            def edit(toks):
                if '*901' in abbr:
                    set_repeat(toks, 901, r)
                if '*902' in abbr:
                    set_repeat(toks, 902, r)
            out = expand_injected(abbr, make_config(user), edit)
            return True if out == expected(parent, child, r, wrong) else 'implicit_name_differs'
        return h
    wit = [{'p': 0, 'r': 1 if '90' not in tpl else 2}, {'p': 9, 'r': 1 if '90' not in tpl else 2}]
    return {'fn': harness(False), 'twin': harness(True), 'witnesses': wit,
            'assumptions': ['template %s; parent chosen by a solver-decided index over the documented parent table '
                            '(+ inline, block, unknown, top level); repeat count r in 1..3 symbolic; selfClosingStyle=%s' % (tpl, style)],
            'functions': ['emmet.markup.implicit_tag.resolve_implicit_tag', 'ELEMENT_MAP', 'output_stream.is_inline']}


# ------------------------------------------------------------------ C01-c deep operator chains
def mk_chain(S, wrap, first_op, fmt=False):
    """S elements x1..xS joined by S-1 solver-chosen operators: 0 '>' | 1 '+' | 2..5 '^' x1..x4.  `wrap`: 0 plain,
    1 the chain sits in a group that is followed by a sibling, 2 the chain sits in a repeated group below a parent."""
    from vf.pipe import expand_injected, make_config
    user = {'options': {'output.format': fmt, 'output.indent': '\x01', 'output.newline': '\x02'}}
    NOP = 6

    def run(ops, wrong=False):
        items, parts = [], []
        for i in range(S):
            name = 'x%d' % (i + 1)
            items.append(('el', name, None, False))
            parts.append(name)
            if i < S - 1:
                o = ops[i]
                if o == 0:
                    items.append('>'); parts.append('>')
                elif o == 1:
                    items.append('+'); parts.append('+')
                else:
                    items += ['^'] * (o - 1); parts.append('^' * (o - 1))
        if wrap == 1:
            items = ['('] + items + [(')', None), '+', ('el', 'y1', None, False)]
            abbr = '(' + ''.join(parts) + ')+y1'
        elif wrap == 2:
            items = [('el', 'y0', None, False), '>', '('] + items + [(')', 2), '+', ('el', 'y1', None, False)]
            abbr = 'y0>(' + ''.join(parts) + ')*2+y1'
        else:
            abbr = ''.join(parts)
        expected = ref_render(ref_build(items), '')
        if wrong:
            expected = expected + '<x1></x1>'
        out = expand_injected(abbr, make_config(user), lambda toks: None)
        if fmt:
            out = out.replace('\x01', '').replace('\x02', '')
        return True if out == expected else 'tree_differs'

    def harness(wrong):
        def h(o2: int, o3: int, o4: int, o5: int, o6: int, o7: int):
            ops = [first_op]
            rest = [o2, o3, o4, o5, o6, o7]
            for o in rest[:S - 2]:
                if not (0 <= o < NOP):
                    return 'skip'
                ops.append(o)
            for o in rest[S - 2:]:
                if o != 0:
                    return 'skip'
            return run(ops, wrong)
        return h
    z = dict(o2=0, o3=0, o4=0, o5=0, o6=0, o7=0)
    w1 = dict(z)
    w2 = dict(z)
    if S >= 4:
        w2.update(o2=0, o3=3)
    return {'fn': harness(False), 'twin': harness(True), 'witnesses': [w1, w2],
            'assumptions': ['%d elements x1..x%d joined by operators chosen by the solver from {>, +, ^, ^^, ^^^, ^^^^}; the first operator is '
                            'kind %d; wrap=%d (0 plain, 1 `(chain)+y1`, 2 `y0>(chain)*2+y1`); format=%s' % (S, S, first_op, wrap, fmt)],
            'functions': ['abbreviation.parser.statements (context stack of > + ^)', 'convert.*', 'format.html.element']}


def jobs(tier):
    q = tier == 'quick'
    K = 5 if q else 7
    out = []
    for style in ('html', 'xhtml', 'xml'):
        for fmt in (False, True):
            if q and fmt and style != 'html':
                continue
            for first in (EL, ELR, ELC, GO):
                out.append(Job('C01-a/structure/K=%d,%s,fmt=%d,first=%d' % (K, style, fmt, first),
                               'vf.props.c01:mk_structure', dict(K=K, style=style, fmt=fmt, first=first), shape='H',
                               bound='<=%d items' % K, budget=900 if q else 3000,
                               weight=(8 if first in (EL, GO) else 3) * 100))
    S = 6 if q else 7
    for wrap in (0, 1, 2):
        for fo in range(6):
            if q and wrap and fo not in (0, 1, 3):
                continue
            out.append(Job('C01-c/chain/S=%d,wrap=%d,op1=%d' % (S, wrap, fo), 'vf.props.c01:mk_chain',
                           dict(S=S, wrap=wrap, first_op=fo, fmt=(wrap == 2)), shape='H', bound='%d elements, every operator sequence' % S,
                           budget=900 if q else 3000, weight=300))
    for ti in range(len(IMPL_TEMPLATES) + len(TOP_TEMPLATES)):
        for style in ('html', 'xml', 'xhtml'):
            if style == 'xhtml' and q:
                continue
            out.append(Job('C01-b/implicit/%s%s' % ((IMPL_TEMPLATES + TOP_TEMPLATES)[ti], '' if style == 'html' else ',' + style),
                           'vf.props.c01:mk_implicit', dict(ti=ti, style=style), shape='H',
                           bound='17 parent contexts, r<=3', budget=600, weight=50))
    return out
