"""C05 - stylesheet abbreviations resolve numbers, units, colors and !important."""
from vf.job import Job
from vf.util import fold

META = {
    'rule': 'C05-a: value sequences assembled from solver-chosen number shapes and units [C] (the abbreviation is written by the documented '
            'concatenation rules), integer/float unit options are symbolic strings [S]; oracle = reference model of the value language, '
            'compared with the real expand() output piece by piece. C05-b: channel printers on every channel value; C05-c: colour form '
            'selection with symbolic channels (printers replaced by taggers); C05-d: colour forms end to end.',
    'bounds': {
        'quick': '5 properties (unit-taking and unitless) x 1 value x 9 number shapes x 8 units, with/without !; padding and line-height with '
                 '<=2 values; 13 wide / zero-spelled numbers (7+ digits, `0.`, `.0`, `00`, `007`) x 8 units on padding and line-height; intUnit/floatUnit any 2 lowercase letters (1 letter in the per-syntax jobs); 5 syntaxes; +-joined pair; every channel value 0..255; symbolic r,g,b in 0..255 x alpha {0,.5,1} x '
                 'shortHex; 20 colour forms x shortHex',
        'thorough': 'all 5 properties with <=2 values, padding and line-height with <=3 values',
    },
    'outside_claim': ['functions/gradients, keywords (C06), stylesheet.json', '4- and 5-digit colours (undocumented)',
                      'numerals outside the 9+13 shapes (floats are concrete: symbolic floats make z3 answer unknown)',
                      'character-level tokenization with symbolic characters is covered for tiling/robustness by C18/C07, not for meaning'],
    'stubs': ['C05-c: color.to_hex / to_short_hex replaced by tag-returning stubs (their real bodies are checked exhaustively in C05-b)',
              'tokenization of the (per path concrete) abbreviation runs outside the tracer; snippet table converted outside the tracer and '
              'passed through the cache option'],
}

PROPS = [('p', 'padding', False), ('m', 'margin', False), ('lh', 'line-height', True), ('z', 'z-index', True), ('w', 'width', False)]
SHAPES = ['10', '5', '0', '-10', '.5', '1.', '1.25', '-.5', '100']
PRINT = {'10': '10', '5': '5', '0': '0', '-10': '-10', '.5': '0.5', '1.': '1', '1.25': '1.25', '-.5': '-0.5', '100': '100'}
# numbers with more than six significant digits, and zero written in other ways than `0`
WIDE = ['1000000', '9999999', '1234.5678', '123456.5', '12345678', '-1000000.5', '99999.5', '0.', '.0', '0.0', '00', '.00', '007']
PRINT.update({'1000000': '1000000', '9999999': '9999999', '1234.5678': '1234.5678', '123456.5': '123456.5', '12345678': '12345678',
              '-1000000.5': '-1000000.5', '99999.5': '99999.5', '0.': '0', '.0': '0', '0.0': '0', '00': '0', '.00': '0', '007': '7'})
UNITS = ['', 'p', 'e', 'x', 'r', 'px', '%', 'vh']
ALIAS = {'p': '%', 'e': 'em', 'x': 'ex', 'r': 'rem'}
SYNTAX = {'css': (': ', ';'), 'scss': (': ', ';'), 'less': (': ', ';'), 'sass': (': ', ''), 'stylus': (' ', '')}


def unit_ok(u):
    return 1 <= len(u) <= 2 and bool(fold(u, lambda o: (o >= 97) & (o <= 122)))


def write_values(items):
    """abbreviation text of a value sequence by the documented rules: a dash after a unit-less number separates values,
    after a unit the next number follows directly (and a dash there is a minus sign)"""
    out = ''
    prev_unit = None
    for (shape, unit) in items:
        if prev_unit is not None and prev_unit == '':
            out += '-'
        out += shape + unit
        prev_unit = unit
    return out


def expected_value(shape, unit, unitless, int_unit, float_unit):
    """rope pieces for one value"""
    num = PRINT[shape]
    if unit:
        return [num + ALIAS.get(unit, unit)]
    if float(shape) == 0 or unitless:
        return [num]
    if '.' in shape:
        return [num, float_unit]
    return [num, int_unit]


def mk_values(pi, K, syntax, important, ulen=2, s1fix=None, wide=False):
    import emmet
    from vf.pipe import make_css_config, Recorder, rope_eq, expand_concrete_tokens
    key, prop, unitless = PROPS[pi]
    between, after = SYNTAX[syntax]
    SHAPES = WIDE if wide else globals()['SHAPES']

    def run(sel, iu, fu, wrong):
        if s1fix is not None and sel[0][0] != s1fix:
            return 'skip'
        items = []
        for i, (s_, u_) in enumerate(sel):
            if s_ == -1 and i > 0:
                if u_ != -1 or any([x != (-1, -1) for x in sel[i:]]):
                    return 'skip'
                break
            if not (0 <= s_ < len(SHAPES) and 0 <= u_ < len(UNITS)):
                return 'skip'
            items.append((SHAPES[s_], UNITS[u_]))
        if len(iu) != ulen or len(fu) != ulen or not (unit_ok(iu) and unit_ok(fu)):
            return 'skip'
        abbr = key + write_values(items) + ('!' if important else '')
        rec = Recorder()
        cfg = make_css_config({'type': 'stylesheet', 'syntax': syntax, 'options': rec.options(
            {'stylesheet.intUnit': iu, 'stylesheet.floatUnit': fu})})
        out = expand_concrete_tokens(abbr, cfg)
        exp = [prop + between]
        for i, (shape, unit) in enumerate(items):
            if i:
                exp.append(' ')
            exp += expected_value(shape, unit, unitless, iu, fu)
        if important:
            exp.append(' !important')
        exp.append(after)
        if wrong:
            exp.append(' ')
        r = rope_eq(rec.pieces, exp)
        if r is not True:
            return 'property_line_differs:' + r
        return True if len(out) == sum([len(p) for p in rec.pieces]) else 'returned_string_is_not_the_pushed_text'

    def harness(wrong):
        if K == 1:
            def h(s1: int, u1: int, iu: str, fu: str):
                return run([(s1, u1)], iu, fu, wrong)
        elif K == 2:
            def h(s1: int, u1: int, s2: int, u2: int, iu: str, fu: str):
                return run([(s1, u1), (s2, u2)], iu, fu, wrong)
        else:
            def h(s1: int, u1: int, s2: int, u2: int, s3: int, u3: int, iu: str, fu: str):
                return run([(s1, u1), (s2, u2), (s3, u3)], iu, fu, wrong)
        return h
    w = dict(s1=0 if s1fix is None else s1fix, u1=0, iu='px'[:ulen], fu='em'[:ulen])
    if K >= 2:
        w.update(s2=-1, u2=-1)
    if K >= 3:
        w.update(s3=-1, u3=-1)
    wit = [w, dict(w, u1=1)] + ([dict(w, s1=4, u1=0)] if s1fix is None else [])
    if K >= 2:
        wit.append(dict(w, s2=3, u2=0))
        wit.append(dict(w, u1=2, s2=1, u2=0))
    return {'fn': harness(False), 'twin': harness(True), 'witnesses': wit,
            'assumptions': ['property %s (%s%s), syntax %s, %s; 1..%d values, each one of %r with one of the units %r (solver-chosen); '
                            'stylesheet.intUnit and floatUnit are any strings of %d lowercase letters' % (
                                key, prop, ', unitless' if unitless else '', syntax, 'with !' if important else 'without !', K, SHAPES, UNITS, ulen)],
            'functions': ['css_abbreviation.tokenizer.number_value/consume_number/should_consume_dash_after', 'css_abbreviation.parser.'
                          'consume_property/consume_value', 'stylesheet.resolve_numeric_value', 'stylesheet.format.stringify/css_property/'
                          'output_value/output_token', 'stylesheet.color.frac']}


def mk_pair(syntax):
    """`+`-joined abbreviations: one property per line"""
    from vf.pipe import make_css_config, expand_concrete_tokens, Recorder, rope_eq
    between, after = SYNTAX[syntax]

    def harness(wrong):
        def h(a: int, b: int, fmt: bool, iu: str):
            if not (0 <= a < len(PROPS) and 0 <= b < len(PROPS)) or not unit_ok(iu):
                return 'skip'
            rec = Recorder()
            cfg = make_css_config({'type': 'stylesheet', 'syntax': syntax, 'options': rec.options(
                {'stylesheet.intUnit': iu, 'output.format': fmt, 'output.newline': '\x02'})})
            out = expand_concrete_tokens(PROPS[a][0] + '10+' + PROPS[b][0] + '5!', cfg)
            exp = [PROPS[a][1] + between + '10'] + ([] if PROPS[a][2] else [iu]) + [after]
            if fmt:
                exp.append('\x02')
            exp += [PROPS[b][1] + between + '5'] + ([] if PROPS[b][2] else [iu]) + [' !important' + after]
            if wrong:
                exp.append(' ')
            r = rope_eq(rec.pieces, exp)
            return True if r is True else 'joined_properties_differ:' + r
        return h
    return {'fn': harness(False), 'twin': harness(True), 'witnesses': [dict(a=0, b=1, fmt=True, iu='px'), dict(a=2, b=0, fmt=False, iu='pt')],
            'assumptions': ['<key>10+<key>5! for every pair of the 5 properties; syntax %s; format on/off; intUnit symbolic' % syntax],
            'functions': ['css_abbreviation.parser.parser (sibling operator)', 'stylesheet.format.stringify']}


# ------------------------------------------------------------------ colours
def mk_channel():
    import importlib
    col = importlib.import_module('emmet.stylesheet.color')

    def h(n: int):
        if not (0 <= n <= 255):
            return 'skip'
        hx = col.to_hex(n)
        if len(hx) != 2 or int(hx, 16) != n:
            return 'to_hex_changes_channel'
        short = col.is_short_hex(n)
        if bool(short) != (n % 17 == 0):
            return 'is_short_hex_wrong'
        if short:
            sh = col.to_short_hex(n)
            if len(sh) != 1 or int(sh + sh, 16) != n:
                return 'to_short_hex_changes_channel'
        return True

    def twin(n: int):
        if not (0 <= n <= 255):
            return 'skip'
        return 'twin' if len(col.to_hex(n)) == 2 else True
    return {'fn': h, 'twin': twin, 'witnesses': [{'n': 0}, {'n': 11}, {'n': 255}, {'n': 204}],
            'assumptions': ['channel n in 0..255 (the solver enumerates: format() realises its argument)'],
            'functions': ['stylesheet.color.to_hex', 'to_short_hex', 'is_short_hex']}


def mk_selection():
    import importlib
    col = importlib.import_module('emmet.stylesheet.color')
    from emmet.css_abbreviation.tokenizer.tokens import ColorValue
    real = (col.to_hex, col.to_short_hex)

    def harness(wrong):
        def h(r: int, g: int, b: int, ai: int, short: bool):
            if not (0 <= r <= 255 and 0 <= g <= 255 and 0 <= b <= 255 and 0 <= ai <= 2):
                return 'skip'
            a = [0, 0.5, 1][ai]
            tags = []
            col.to_hex = lambda n: tags.append(('L', n)) or 'LL'
            col.to_short_hex = lambda n: tags.append(('S', n)) or 'S'
            try:
                out = col.color(ColorValue(r, g, b, a), short)
            finally:
                col.to_hex, col.to_short_hex = real
            if r == 0 and g == 0 and b == 0 and a == 0:
                return True if out == 'transparent' else 'transparent_expected'
            if a != 1:
                if tags:
                    return 'rgba_must_not_use_hex_printers'
                return True if out.startswith('rgba(') else 'rgba_expected'
            all_short = (r % 17 == 0) and (g % 17 == 0) and (b % 17 == 0)
            if wrong:
                all_short = (r % 17 == 0) and (g % 17 == 0)
            want = 'S' if (short and all_short) else 'L'
            if tags != [(want, r), (want, g), (want, b)]:
                return 'wrong_hex_form_selected'
            return True
        return h
    return {'fn': harness(False), 'twin': harness(True), 'witnesses': [dict(r=255, g=204, b=0, ai=2, short=True), dict(r=0, g=0, b=0, ai=0, short=True),
                                                                  dict(r=255, g=204, b=1, ai=2, short=True), dict(r=1, g=2, b=3, ai=1, short=False)],
            'assumptions': ['r,g,b any integers in 0..255, alpha in {0, .5, 1}, shortHex free; channel printers replaced by taggers'],
            'functions': ['stylesheet.color.color', 'as_hex', 'as_rgb']}


COLORS = [('#f', '#fff', '#ffffff'), ('#fc', '#fcfcfc', '#fcfcfc'), ('#fc0', '#fc0', '#ffcc00'), ('#ffcc00', '#fc0', '#ffcc00'),
          ('#e7bc0b', '#e7bc0b', '#e7bc0b'), ('#0b', '#0b0b0b', '#0b0b0b'), ('#0', '#000', '#000000'), ('#t', 'transparent', 'transparent'),
          ('#f.5', 'rgba(255, 255, 255, 0.5)', 'rgba(255, 255, 255, 0.5)'), ('#fc0.25', 'rgba(255, 204, 0, 0.25)', 'rgba(255, 204, 0, 0.25)'),
          ('#ffcc01', '#ffcc01', '#ffcc01'), ('#1122f0', '#1122f0', '#1122f0'), ('#0000fe', '#0000fe', '#0000fe'), ('#a1', '#a1a1a1', '#a1a1a1'),
          ('#F', '#fff', '#ffffff'), ('#010203', '#010203', '#010203'), ('#0.5', 'rgba(0, 0, 0, 0.5)', 'rgba(0, 0, 0, 0.5)'),
          ('#FC0', '#fc0', '#ffcc00'), ('#e7BC0b', '#e7bc0b', '#e7bc0b'), ('#000.3', 'rgba(0, 0, 0, 0.3)', 'rgba(0, 0, 0, 0.3)')]


def mk_colors():
    from vf.pipe import make_css_config, expand_concrete_tokens

    def harness(wrong):
        def h(ci: int, short: bool, imp: bool, ki: int):
            if not (0 <= ci < len(COLORS) and 0 <= ki < 2):
                return 'skip'
            src, s_out, l_out = COLORS[ci]
            key, prop = [('c', 'color'), ('bgc', 'background-color')][ki]
            cfg = make_css_config({'type': 'stylesheet', 'options': {'stylesheet.shortHex': short}})
            out = expand_concrete_tokens(key + src + ('!' if imp else ''), cfg)
            exp = prop + ': ' + ((l_out if wrong else s_out) if short else l_out) + (' !important' if imp else '') + ';'
            return True if out == exp else 'colour_differs'
        return h
    return {'fn': harness(False), 'twin': harness(True), 'witnesses': [dict(ci=0, short=True, imp=False, ki=0), dict(ci=4, short=True, imp=True, ki=1)],
            'assumptions': ['colour written as one of %r after `c` or `bgc`; shortHex on/off; with/without !' % [c[0] for c in COLORS]],
            'functions': ['css_abbreviation.tokenizer.color_value/parse_color/color_alpha', 'stylesheet.color.*', 'stylesheet.format.output_token']}


def mk_color_then_number():
    """a dash after a colour separates values"""
    from vf.pipe import make_css_config, expand_concrete_tokens

    def harness(wrong):
        def h(ci: int, neg: bool):
            if not (0 <= ci < 8):
                return 'skip'
            src, s_out, _ = COLORS[ci]
            cfg = make_css_config({'type': 'stylesheet'})
            out = expand_concrete_tokens('bd' + src + '-' + ('-' if neg else '') + '2', cfg)
            exp = 'border: ' + s_out + ' ' + ('-' if neg and not wrong else '') + '2px;'
            return True if out == exp else 'dash_after_colour_misread'
        return h
    return {'fn': harness(False), 'twin': harness(True), 'witnesses': [dict(ci=0, neg=False), dict(ci=2, neg=True)],
            'assumptions': ['bd<colour>-2 and bd<colour>--2 for 8 colour forms'],
            'functions': ['css_abbreviation.tokenizer.should_consume_dash_after']}


def jobs(tier):
    q = tier == 'quick'
    out = []
    for pi in range(len(PROPS)):
        for imp in (False, True):
            out.append(Job('C05-a/values/%s/K=1,css,imp=%d' % (PROPS[pi][0], imp), 'vf.props.c05:mk_values',
                           dict(pi=pi, K=1, syntax='css', important=imp, ulen=2), shape='H', bound='1 value', budget=900, weight=100))
        if q and pi not in (0, 2):
            continue
        for s1 in range(len(SHAPES)):
            for K in ((2,) if q else (2, 3)):
                if K == 3 and pi not in (0, 2):
                    continue
                out.append(Job('C05-a/values/%s/K=%d,css,s1=%d' % (PROPS[pi][0], K, s1), 'vf.props.c05:mk_values',
                               dict(pi=pi, K=K, syntax='css', important=False, ulen=2 if K == 2 else 1, s1fix=s1), shape='H',
                               bound='<=%d values' % K, budget=2400 if K == 2 else 12000, weight=2000 if K == 2 else 50000))
    for pi in (0, 2):
        out.append(Job('C05-a/wide-numbers/%s' % PROPS[pi][0], 'vf.props.c05:mk_values', dict(pi=pi, K=1, syntax='css', important=False, ulen=1, wide=True),
                       shape='H', bound='1 value from 13 wide/zero shapes', budget=900, weight=120))
    for syn in ('scss', 'sass', 'less', 'stylus'):
        out.append(Job('C05-a/values/p/K=1,%s' % syn, 'vf.props.c05:mk_values', dict(pi=0, K=1, syntax=syn, important=True, ulen=1), shape='H',
                       bound='1 value', budget=900, weight=100))
        out.append(Job('C05-a/pair/%s' % syn, 'vf.props.c05:mk_pair', dict(syntax=syn), shape='H', bound='25 pairs', budget=900, weight=100))
    out.append(Job('C05-a/pair/css', 'vf.props.c05:mk_pair', dict(syntax='css'), shape='H', bound='25 pairs', budget=900, weight=100))
    out.append(Job('C05-b/channel-printers', 'vf.props.c05:mk_channel', {}, shape='U', bound='n in 0..255', budget=900, weight=300))
    out.append(Job('C05-c/form-selection', 'vf.props.c05:mk_selection', {}, shape='U', bound='r,g,b in 0..255', budget=900, weight=300))
    out.append(Job('C05-d/colours', 'vf.props.c05:mk_colors', {}, shape='H', bound='20 colour forms', budget=900, weight=200))
    out.append(Job('C05-d/colour-then-number', 'vf.props.c05:mk_color_then_number', {}, shape='H', bound='8 colour forms', budget=900, weight=100))
    return out
