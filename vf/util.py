"""Helpers usable both under the engine (python3-vt) and in plain replay (/venv)."""
import contextlib

try:  # engine present?
    from crosshair.tracers import NoTracing as _NoTracing, is_tracing as _is_tracing
except Exception:  # replay interpreter: no crosshair
    _NoTracing = None

    def _is_tracing():
        return False


@contextlib.contextmanager
def untraced():
    """Run concrete, input-independent set-up outside CrossHair's tracer."""
    if _NoTracing is not None and _is_tracing():
        with _NoTracing():
            yield
    else:
        yield


def ascii_only(s, limit=128):
    return all([ord(c) < limit for c in s])


def lb_free(s):
    """No character that str.splitlines() breaks on (written as ord ranges so a
    symbolic character is not realised)."""
    return not any([(10 <= ord(c) <= 13) or (28 <= ord(c) <= 30) or ord(c) == 0x85
                    or ord(c) == 0x2028 or ord(c) == 0x2029 for c in s])


def none_of(s, chars):
    """True when no character of s is one of `chars` (ord comparisons only)."""
    codes = [ord(c) for c in chars]
    return not any([any([ord(ch) == k for k in codes]) for ch in s])


def concretize(v):
    """Solver-driven case split: under the engine z3 picks one concrete value for `v` on this
    path (the complementary "not that value" branch stays queued); identity in plain runs."""
    if _NoTracing is not None and _is_tracing():
        from crosshair.core import deep_realize
        return deep_realize(v)
    return v
