"""Helpers usable both under the engine (python3-vt) and in plain replay (/venv)."""
import contextlib

try:  # engine present?
    from crosshair.tracers import NoTracing as _NoTracing, is_tracing as _is_tracing
except Exception:  # replay interpreter: no crosshair
    _NoTracing = None

    def _is_tracing():
        return False


@contextlib.contextmanager
def untraced():
    """Run concrete, input-independent set-up outside CrossHair's tracer."""
    if _NoTracing is not None and _is_tracing():
        with _NoTracing():
            yield
    else:
        yield


def fold(s, pred):
    """AND of pred(ord(c)) over the characters of s, built with `&` so that a symbolic string
    yields ONE symbolic boolean (Python's and/or/all would fork the path per character)."""
    ok = True
    for c in s:
        ok = ok & pred(ord(c))
    return ok


def ascii_only(s, limit=128):
    return fold(s, lambda o: o < limit)


def _not_lb(o):
    return ((o < 10) | (o > 13)) & ((o < 28) | (o > 30)) & (o != 0x85) & (o != 0x2028) & (o != 0x2029)


def lb_free(s):
    """No character that str.splitlines() breaks on."""
    return fold(s, _not_lb)


def none_of(s, chars):
    """True when no character of s is one of `chars`."""
    codes = [ord(c) for c in chars]

    def pred(o):
        ok = True
        for k in codes:
            ok = ok & (o != k)
        return ok
    return fold(s, pred)


def concretize(v):
    """Solver-driven case split: under the engine z3 picks one concrete value for `v` on this
    path (the complementary "not that value" branch stays queued); identity in plain runs."""
    if _NoTracing is not None and _is_tracing():
        from crosshair.core import deep_realize
        return deep_realize(v)
    return v


def str_eq(a, b):
    """a == b decided with ONE solver fork for the contents (plus one on the lengths): the
    built-in == of CrossHair's lazy strings forks per character."""
    if len(a) != len(b):
        return False
    ok = True
    for i in range(len(b)):
        ok = ok & (ord(a[i]) == ord(b[i]))
    return True if ok else False


def pick_int(x, lo, hi):
    """Case split of an int known to lie in [lo, hi] by equality tests: exactly one path per value (deep_realize on several
    ints was measured to revisit the same assignment many times: 264 leaves for 32 assignments)."""
    for v in range(lo, hi):
        if x == v:
            return v
    return hi
