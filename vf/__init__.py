"""Solver-based checks for py-emmet (see /verif/DESIGN.md)."""
import os
import sys

sys.dont_write_bytecode = True
REPO = os.environ.get('VERIF_REPO', '/repo')
VERIF = os.path.dirname(os.path.dirname(os.path.abspath(__file__)))
for p in (VERIF, REPO):
    if p not in sys.path:
        sys.path.insert(0, p)
# Guard for (currently no) instrumentation hooks in /repo.
os.environ.setdefault('PY_EMMET_VERIF', '1')
