"""Token-boundary injection for the markup pipeline.

`expand_injected(abbr, config, edit)` calls the real `emmet.expand(abbr, config)` while
`emmet.abbreviation.tokenize` (the name `parse()` looks up) is wrapped: the real tokenizer
runs on the concrete template string *outside the tracer* (identical result, 37x faster) and
`edit(tokens)` then overwrites chosen token fields (Literal.value, Repeater.count,
RepeaterNumber.size/base/reverse ...) with symbolic values.  Everything downstream - parser,
convert, snippets, transforms, formatter, OutputStream - is the real code under the engine.
Snippet bodies are tokenised by the same wrapper without edits.
"""
import emmet
import emmet.abbreviation as _ab
from emmet.abbreviation.tokenizer import tokens as T

from vf.util import untraced

_REAL_TOKENIZE = _ab.tokenize


def expand_injected(abbr, config, edit=None, global_config=None):
    state = {'done': False}

    def hook(source):
        with untraced():
            toks = _REAL_TOKENIZE(source)
        if edit is not None and not state['done'] and source is abbr:
            state['done'] = True
            edit(toks)
        return toks
    _ab.tokenize = hook
    try:
        if global_config is not None:
            return emmet.expand(abbr, config, global_config)
        return emmet.expand(abbr, config)
    finally:
        _ab.tokenize = _REAL_TOKENIZE


def make_config(user):
    """Config built outside the tracer (option values are concrete here; layering is C20's subject)."""
    from emmet.config import Config
    with untraced():
        return Config(user)


def make_css_config(user):
    """Stylesheet Config whose snippet table is converted outside the tracer and handed over through the documented
    `cache` option (converting 230 snippets under the tracer costs ~0.5 s per path; C08 checks that a cache never
    changes a result)."""
    from emmet.config import Config
    from emmet.stylesheet import convert_snippets
    with untraced():
        cfg = Config(user)
        cfg.cache = {'stylesheet_snippets': convert_snippets(cfg.snippets)}
    return cfg


def set_literal(tokens, marker, value):
    """Replace `marker` inside Literal token values by `value` (possibly symbolic)."""
    n = 0
    for t in tokens:
        if isinstance(t, T.Literal) and marker in t.value:
            i = t.value.find(marker)
            t.value = t.value[:i] + value + t.value[i + len(marker):]
            n += 1
    if n == 0:
        raise AssertionError('marker %r not found in template tokens' % marker)


def set_repeat(tokens, marker_count, value):
    n = 0
    for t in tokens:
        if isinstance(t, T.Repeater) and not t.implicit and t.count == marker_count:
            t.count = value
            n += 1
    if n == 0:
        raise AssertionError('repeater *%d not found in template tokens' % marker_count)


def set_numbering(tokens, marker_base, size=None, base=None, reverse=None):
    n = 0
    for t in tokens:
        if isinstance(t, T.RepeaterNumber) and t.base == marker_base:
            if size is not None:
                t.size = size
            if reverse is not None:
                t.reverse = reverse
            if base is not None:
                t.base = base
            n += 1
    if n == 0:
        raise AssertionError('numbering @%d not found in template tokens' % marker_base)


# ---------------------------------------------------------------------------------------------
# Observation through the documented `output.text` / `output.field` callbacks.
# CrossHair's == on lazily concatenated symbolic strings forks once per character (hundreds of
# solver calls for a 30-character output).  The library hands every piece it emits to the caller's
# `output.text` callback, so a harness can observe the output as a *rope* of pieces and compare it
# with the expected rope: aligned pieces that are the same object cost nothing, concrete overlaps
# are compared in plain Python, and only misaligned symbolic overlaps go to the solver.
class Recorder:
    def __init__(self):
        self.pieces = []
        self.fields = []

    def text(self, text, **kw):
        self.pieces.append(text)
        return text

    def field(self, index, placeholder, **kw):
        self.fields.append((index, placeholder))
        self.pieces.append(placeholder)
        return placeholder

    def options(self, extra=None):
        o = {'output.text': self.text, 'output.field': self.field}
        if extra:
            o.update(extra)
        return o


def _is_concrete(p):
    with untraced():
        return type(p) is str


def rope_eq(got, exp):
    """Compare two lists of string pieces as if each list were joined.
    Returns True or a label.  Lengths of symbolic pieces must be decided on the path."""
    g = [(p, _is_concrete(p)) for p in got]
    e = [(p, _is_concrete(p)) for p in exp]
    g = [(p, c, len(p) if c else int(len(p))) for (p, c) in g]
    e = [(p, c, len(p) if c else int(len(p))) for (p, c) in e]
    g = [x for x in g if x[2] > 0]
    e = [x for x in e if x[2] > 0]
    if sum([x[2] for x in g]) != sum([x[2] for x in e]):
        return 'length_differs'
    gi = ei = 0          # piece indices
    go = eo = 0          # offsets inside current pieces
    ok = True
    while gi < len(g) and ei < len(e):
        gp, gc, gl = g[gi]
        ep, ec, el = e[ei]
        n = min(gl - go, el - eo)
        if gc and ec:
            if gp[go:go + n] != ep[eo:eo + n]:
                return 'text_differs'
        elif gp is ep and go == eo:
            pass
        else:
            for k in range(n):
                ok = ok & (ord(gp[go + k]) == ord(ep[eo + k]))
        go += n
        eo += n
        if go == gl:
            gi += 1
            go = 0
        if eo == el:
            ei += 1
            eo = 0
    return True if ok else 'text_differs'


def expand_concrete_tokens(abbr, config):
    """emmet.expand on a CONCRETE abbreviation string with both tokenizers run outside the tracer (identical tokens);
    parser, converter, resolvers and formatters stay under the engine.  Used where the string is chosen by selectors."""
    import emmet.css_abbreviation as _css
    real_css = _css.tokenize

    def css_hook(source, is_value=False):
        with untraced():
            return real_css(source, is_value)

    def hook(source):
        with untraced():
            return _REAL_TOKENIZE(source)
    _ab.tokenize = hook
    _css.tokenize = css_hook
    try:
        return emmet.expand(abbr, config)
    finally:
        _ab.tokenize = _REAL_TOKENIZE
        _css.tokenize = real_css
