"""Token-boundary injection for the markup pipeline.

`expand_injected(abbr, config, edit)` calls the real `emmet.expand(abbr, config)` while
`emmet.abbreviation.tokenize` (the name `parse()` looks up) is wrapped: the real tokenizer
runs on the concrete template string *outside the tracer* (identical result, 37x faster) and
`edit(tokens)` then overwrites chosen token fields (Literal.value, Repeater.count,
RepeaterNumber.size/base/reverse ...) with symbolic values.  Everything downstream - parser,
convert, snippets, transforms, formatter, OutputStream - is the real code under the engine.
Snippet bodies are tokenised by the same wrapper without edits.
"""
import emmet
import emmet.abbreviation as _ab
from emmet.abbreviation.tokenizer import tokens as T

from vf.util import untraced

_REAL_TOKENIZE = _ab.tokenize


def expand_injected(abbr, config, edit=None, global_config=None):
    state = {'done': False}

    def hook(source):
        with untraced():
            toks = _REAL_TOKENIZE(source)
        if edit is not None and not state['done'] and source is abbr:
            state['done'] = True
            edit(toks)
        return toks
    _ab.tokenize = hook
    try:
        if global_config is not None:
            return emmet.expand(abbr, config, global_config)
        return emmet.expand(abbr, config)
    finally:
        _ab.tokenize = _REAL_TOKENIZE


def make_config(user):
    """Config built outside the tracer (option values are concrete here; layering is C20's subject)."""
    from emmet.config import Config
    with untraced():
        return Config(user)


def set_literal(tokens, marker, value):
    """Replace `marker` inside Literal token values by `value` (possibly symbolic)."""
    n = 0
    for t in tokens:
        if isinstance(t, T.Literal) and marker in t.value:
            i = t.value.find(marker)
            t.value = t.value[:i] + value + t.value[i + len(marker):]
            n += 1
    if n == 0:
        raise AssertionError('marker %r not found in template tokens' % marker)


def set_repeat(tokens, marker_count, value):
    n = 0
    for t in tokens:
        if isinstance(t, T.Repeater) and not t.implicit and t.count == marker_count:
            t.count = value
            n += 1
    if n == 0:
        raise AssertionError('repeater *%d not found in template tokens' % marker_count)


def set_numbering(tokens, marker_base, size=None, base=None, reverse=None):
    n = 0
    for t in tokens:
        if isinstance(t, T.RepeaterNumber) and t.base == marker_base:
            if size is not None:
                t.size = size
            if reverse is not None:
                t.reverse = reverse
            if base is not None:
                t.base = base
            n += 1
    if n == 0:
        raise AssertionError('numbering @%d not found in template tokens' % marker_base)
