"""Replay one recorded counterexample on the real code without the engine.
usage: /venv/bin/python -B -m vf.replay <replay.json>     exit 1 = reproduces."""
import json
import sys

import vf  # noqa: F401
from vf.job import load_make, run_concrete


def main():
    rec = json.load(open(sys.argv[1]))
    made = load_make(rec['make'])(**rec['params'])
    kind, label, det = run_concrete(made['fn'], rec['args'])
    print('property %s job %s' % (rec['property'], rec['job']))
    print('input    %s' % json.dumps(rec['args']))
    print('verdict  %s %s %s' % (kind, label or '', det or ''))
    explain = made.get('explain')
    if explain:
        try:
            print(explain(**rec['args']))
        except Exception as e:
            print('explain failed: %r' % e)
    print('REPLAY-VERDICT %s' % ('REPRODUCED' if kind == 'violation' else 'NOT-REPRODUCED'))
    return 1 if kind == 'violation' else 0


if __name__ == '__main__':
    sys.exit(main())
