"""Event-based generator of well-formed stylesheets (CSS/SCSS/LESS with nesting) with ground truth."""

RULE, ATRULE, CLOSE, DECL, INERT, END = range(6)
NK = 6
STMT = 6       # value-less statement, placed explicitly by the family generators below (never chosen as a free event)

# slots are numbered from 1: with rotation 0 a document of K events uses entries 1..K of each list, so the most telling
# variants come first
SELECTORS = ['a', 'j:not(.k):hover', 'c[d="{;}"]', 'b:hover', 'l:m, n:o', 'e::before', 'f > g', '.h:not(.i)']
DECLS = [('c', 'd'), ('n', 'calc((1 - 2) / 3) q'), ('e', '"x;}{" f'), ('$m', '(a: (b: c), d: e)'), ('$v', '1px'), ('g', 'url(a:b)'), ('--cp', '2'), ('m', '1px 2px')]
# value tokens (relative to the value start) per declaration variant
TOKENS = {'(a: (b: c), d: e)': [(0, 17)], 'd': [(0, 1)], '"x;}{" f': [(0, 6), (7, 8)], '1px': [(0, 3)], '2': [(0, 1)], 'url(a:b)': [(0, 8)], '1px 2px': [(0, 3), (4, 7)], 'calc((1 - 2) / 3) q': [(0, 17), (18, 19)]}
WS = ['', ' ', '\n\t', '  ']


class Rule:
    kind = 'rule'

    def __init__(self, start, brace, parent):
        self.start = start          # selector start
        self.brace = brace          # index of `{`
        self.close = None           # index of `}`
        self.end = None             # after `}`
        self.parent = parent
        self.children = []
        self.content = None         # trimmed (start, end) of the body or None


class Decl:
    kind = 'decl'

    def __init__(self, ns, ne, vs, ve, semi, parent):
        self.start, self.name_end, self.vs, self.ve, self.semi = ns, ne, vs, ve, semi
        self.end = semi + 1
        self.parent = parent
        self.children = []


def prefix_ok(kinds):
    depth = 0
    ended = False
    for k in kinds:
        if ended:
            if k != END:
                return False
            continue
        if k in (RULE, ATRULE):
            depth += 1
        elif k == CLOSE:
            if depth == 0:
                return False
            depth -= 1
        elif k == END:
            if depth != 0:
                return False
            ended = True
    return True


def complete(kinds):
    depth = 0
    for k in kinds:
        if k in (RULE, ATRULE):
            depth += 1
        elif k == CLOSE:
            depth -= 1
    return depth == 0 and any(k != END for k in kinds)


def is_space(c):
    return c in ' \t\xa0\n\r'


class Stmt:
    """value-less statement such as `@include r;` (not a declaration)"""
    kind = 'stmt'

    def __init__(self, start, end, semi, parent):
        self.start, self.name_end, self.semi = start, end, semi
        self.end = semi + 1
        self.parent = parent
        self.children = []


def build(kinds, rot=0, stmts=False):
    parts = []
    pos = 0
    items = []      # rules and declarations in document order
    stack = []
    n = 0

    def emit(s):
        nonlocal pos
        parts.append(s)
        pos += len(s)

    for k in kinds:
        if k == END:
            break
        n += 1
        v = n + rot
        if k in (RULE, ATRULE):
            emit(WS[v % 4])
            start = pos
            emit('@media (min-width: 1px)' if k == ATRULE else SELECTORS[v % len(SELECTORS)])
            emit(WS[(v + 1) % 2])
            r = Rule(start, pos, stack[-1] if stack else None)
            emit('{')
            if stack:
                stack[-1].children.append(r)
            items.append(r)
            stack.append(r)
        elif k == CLOSE:
            emit(WS[v % 3])
            r = stack.pop()
            r.close = pos
            emit('}')
            r.end = pos
        elif k == STMT or (k == DECL and stmts and v % 3 == 2):
            emit(WS[v % 4])
            ns = pos
            emit('@include r')
            st = Stmt(ns, pos, pos, stack[-1] if stack else None)
            emit(';')
            if stack:
                stack[-1].children.append(st)
            items.append(st)
        elif k == DECL:
            emit(WS[v % 4])
            name, value = DECLS[v % len(DECLS)]
            ns = pos
            emit(name)
            ne = pos
            emit(':' + WS[v % 2])
            vs = pos
            emit(value)
            ve = pos
            if v % 5 == 3:
                emit(' ')            # a blank between the value and its semicolon belongs to neither
            d = Decl(ns, ne, vs, ve, pos, stack[-1] if stack else None)
            d.tokens = [(vs + a, vs + b) for (a, b) in TOKENS[value]]
            emit(';')
            if stack:
                stack[-1].children.append(d)
            items.append(d)
        elif k == INERT:
            emit(['/* {a:b;} */', '\n', ' /* } */ ', '/**/'][v % 4])
    doc = ''.join(parts)
    for it in items:
        if it.kind == 'rule':
            a, b = it.brace + 1, it.close
            while a < b and is_space(doc[a]):
                a += 1
            while b > a and is_space(doc[b - 1]):
                b -= 1
            it.content = (a, b) if a < b else None
    return doc, items


def offsets(items):
    """all recorded boundary offsets (positions where 'strictly inside' and 'at' differ)"""
    out = set()
    for it in items:
        if it.kind == 'rule':
            out.update([it.start, it.brace, it.brace + 1, it.close, it.end])
            if it.content:
                out.update(it.content)
        else:
            out.update([it.start, it.name_end, it.vs, it.ve, it.semi, it.end])
    return sorted(out)


def pool_family():
    """Stylesheets that make the matchers re-use pooled range objects: a first top-level rule with a nested chain of depth 1..3
    (declarations before / inside it), then a second top-level rule whose FIRST child is a declaration, a value-less statement or
    an empty rule.  Returns event lists for build()."""
    out = []
    for depth in (1, 2, 3):
        for pre in (0, 1):
            for inner in (DECL, STMT, None):
                for first in (DECL, STMT, RULE):
                    for tail in (0, 1):
                        ks = [RULE]
                        if pre:
                            ks.append(DECL)
                        ks += [RULE] * (depth - 1)
                        if inner is not None:
                            ks.append(inner)
                        ks += [CLOSE] * depth
                        ks.append(RULE)
                        ks += [RULE, CLOSE] if first == RULE else [first]
                        if tail:
                            ks.append(DECL)
                        ks.append(CLOSE)
                        out.append(ks)
    return out
