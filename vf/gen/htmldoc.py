"""Event-based generator of well-formed HTML/XML documents with ground truth.

A document is a sequence of events chosen one at a time (by the solver, through integer selectors):
OPEN / OPEN+attributes / CLOSE / VOID / SELF-closed / COMMENT / CDATA / PI / SCRIPT / STYLE / TEXT / END.
While the document text is assembled the generator records where every element lies - this record is the
oracle; nothing is parsed back."""

# selector kinds (what the solver chooses).  INERT and SPECIAL rotate through their variants by slot number so that
# the case split stays small while every construct occurs in every position class.
OPEN, OPENA, CLOSE, VOID, SELF, INERT, SPECIAL, END = range(8)
NK = 8
COMMENT, CDATA, PI, TEXT = range(4)


class Elem:
    def __init__(self, name, open_, attrs, parent):
        self.name = name
        self.open = open_        # (start, end)
        self.close = None        # (start, end) or None
        self.attrs = attrs       # [(name, value_or_None, (ns, ne), (vs, ve) or None)]
        self.parent = parent
        self.children = []

    @property
    def start(self):
        return self.open[0]

    @property
    def end(self):
        return self.close[1] if self.close else self.open[1]


def prefix_ok(kinds, xml):
    """incremental well-formedness of an event prefix"""
    depth = 0
    ended = False
    for k in kinds:
        if ended:
            if k != END:
                return False
            continue
        if k in (OPEN, OPENA):
            depth += 1
        elif k == CLOSE:
            if depth == 0:
                return False
            depth -= 1
        elif k == VOID:
            if xml:
                return False
        elif k == END:
            if depth != 0:
                return False
            ended = True
    return True


def complete(kinds):
    depth = 0
    for k in kinds:
        if k in (OPEN, OPENA):
            depth += 1
        elif k == CLOSE:
            depth -= 1
    return depth == 0 and any(k != END for k in kinds)


def build(kinds, rot=0, xml=False):
    """-> (doc, elements in document order)"""
    parts = []
    pos = 0
    elems = []
    stack = []
    n = 0

    def emit(s):
        nonlocal pos
        parts.append(s)
        pos += len(s)

    def add(name, start, attr_specs, tail):
        """emit an open/void/self tag; attr_specs = [(text_before, name, value_or_None)]"""
        nonlocal pos
        attrs = []
        emit('<' + name)
        for (sep, an, av) in attr_specs:
            emit(sep)
            ns = pos
            emit(an)
            ne = pos
            if av is not None:
                emit('=')
                vs = pos
                emit(av)
                attrs.append((an, av, (ns, ne), (vs, pos)))
            else:
                attrs.append((an, None, (ns, ne), None))
        emit(tail)
        e = Elem(name, (start, pos), attrs, stack[-1] if stack else None)
        if stack:
            stack[-1].children.append(e)
        elems.append(e)
        return e

    for k in kinds:
        if k == END:
            break
        n += 1
        if k == OPEN:
            # in XML mode every second plain element carries an HTML void name: it is an ordinary paired element there
            stack.append(add(('br' if (n + rot) % 2 else 'img') if (xml and n % 2 == 0) else 'd%d' % n, pos, [], '>'))
        elif k == OPENA:
            if (n + rot) % 2:
                spec = [(' ', 'a', '"x\'>y"'), (' ', 'class', '"c1  c2"'), (' ', 'b', 'c'), ('\n', 'g', None)]
            else:      # value-less attribute BEFORE valued ones, unquoted value at a line end
                spec = [(' ', 'g', None), (' ', 'a', '"x\'>y"'), ('\n', 'b', 'c'), ('\n', 'class', '"c1  c2"')]
            stack.append(add('e%d' % n, pos, spec, ' >'))
        elif k == CLOSE:
            e = stack.pop()
            s = pos
            emit('</' + e.name + '>')
            e.close = (s, pos)
        elif k == VOID:
            if n % 2:
                add('br', pos, [], '>')
            else:
                add('img', pos, [(' ', 'src', "'1>2'")], '>')
        elif k == SELF:
            if (n + rot) % 2:
                add('s%d' % n, pos, [(' ', 'd', '{e>f}'), (' ', 'b', 'c')], '/>')     # unquoted value right before `/>`
            else:
                add('s%d' % n, pos, [(' ', 'd', '{e>f}'), (' ', 'h', None)], ' />')
        elif k == INERT:
            v = (n + rot) % 4
            if v == COMMENT:
                emit('<!-- <b> </i> -->')
            elif v == CDATA:
                emit('<![CDATA[<i>]]>')
            elif v == PI:
                emit('<?p <u> "?>" ?>')
            else:
                emit(' t> ')
        elif k == SPECIAL:
            if (n + rot) % 3 == 2:
                add('script', pos, [(' ', 'src', '"a.js"')], '/>')      # self-closed: no body to skip
            elif (n + rot) % 2:
                e = add('script', pos, [], '>')
                emit('if(a<b){"</p>"}')
                s = pos
                emit('</script>')
                e.close = (s, pos)
            else:
                e = add('style', pos, [(' ', 'type', '"text/css"')], '>')
                emit('a>b{}<i>')
                s = pos
                emit('</style>')
                e.close = (s, pos)
    return ''.join(parts), elems


def enclosing(elems, pos):
    """elements strictly containing pos, innermost first (works with a symbolic pos)"""
    out = [e for e in elems if e.start < pos < e.end]
    out.sort(key=lambda e: -e.start)
    return out


def unquoted(value, vs, ve):
    """range of the attribute value without its quotes / expression braces"""
    if value[:1] in ('"', "'"):
        return (vs + 1, ve - (1 if value[-1:] == value[:1] else 0))
    if value[:1] == '{' and value[-1:] == '}':
        return (vs + 1, ve - 1)
    return (vs, ve)


def selection_ranges(e):
    """expected ranges of the select-item model of tag e (tag name, attributes, unquoted values, class tokens)"""
    out = []

    def push(r):
        if r[0] != r[1] and (not out or out[-1] != r):
            out.append(r)
    push((e.open[0] + 1, e.open[0] + 1 + len(e.name)))
    for (an, av, (ns, ne), vr) in e.attrs:
        if av is None:
            push((ns, ne))
            continue
        push((ns, vr[1]))
        u = unquoted(av, vr[0], vr[1])
        if u[0] != u[1]:
            push(u)
            if an == 'class':
                text = av[u[0] - vr[0]:u[1] - vr[0]]
                i = 0
                while i < len(text):
                    if text[i] in ' \t\xa0\n\r':
                        i += 1
                        continue
                    j = i
                    while j < len(text) and text[j] not in ' \t\xa0\n\r':
                        j += 1
                    push((u[0] + i, u[0] + j))
                    i = j
    return out
