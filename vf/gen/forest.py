"""Ordered forests with exactly n nodes (Dyck words of n pairs), turned into event lists for the document generators.
Used for documents that are deeper / wider than the free event sequences of the K-bounded jobs can reach."""
import functools


@functools.lru_cache(maxsize=None)
def dyck(n):
    """all balanced bracket words with n pairs, in lexicographic order"""
    if n == 0:
        return ('',)
    out = []
    for k in range(n):            # first pair encloses k pairs, n-1-k follow
        for inner in dyck(k):
            for rest in dyck(n - 1 - k):
                out.append('(' + inner + ')' + rest)
    return tuple(sorted(out))


def html_kinds(word, rot, xml, H):
    """leaves rotate through paired-empty / void / self-closed (no void in XML mode); every third inner node carries attributes"""
    ks = []
    i = 0
    leaf = 0
    node = 0
    while i < len(word):
        if word[i] == '(':
            node += 1
            if word[i + 1] == ')':
                leaf += 1
                v = (leaf + rot) % 3
                if v == 0 and not xml:
                    ks.append(H.VOID)
                elif v == 1:
                    ks.append(H.SELF)
                else:
                    ks += [H.OPEN, H.CLOSE]
                i += 2
                continue
            ks.append(H.OPENA if (node + rot) % 3 == 0 else H.OPEN)
        else:
            ks.append(H.CLOSE)
        i += 1
    return ks


def css_kinds(word, rot, C):
    """leaves are declarations, every third leaf an empty rule; inner nodes are rules (every fourth an at-rule)"""
    ks = []
    i = 0
    leaf = 0
    node = 0
    while i < len(word):
        if word[i] == '(':
            node += 1
            if word[i + 1] == ')':
                leaf += 1
                if (leaf + rot) % 3 == 0:
                    ks += [C.RULE, C.CLOSE]
                else:
                    ks.append(C.DECL)
                i += 2
                continue
            ks.append(C.ATRULE if (node + rot) % 4 == 0 else C.RULE)
        else:
            ks.append(C.CLOSE)
        i += 1
    return ks
