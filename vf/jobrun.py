"""Runs one job in its own interpreter:  python -B -m vf.jobrun <spec.json> <result.json>"""
import json
import sys

import vf  # noqa: F401
from vf.job import run_job


def main():
    spec = json.load(open(sys.argv[1]))
    res = run_job(spec)
    json.dump(res, open(sys.argv[2], 'w'), default=str)


if __name__ == '__main__':
    main()
