"""Symbolic-execution runner: a thin layer over CrossHair's path explorer.

One *job* = one harness function explored until its path tree is exhausted (or a
deadline passes).  A harness is a plain typed function
    h(**symbolic_args) -> True | 'skip' | <label>
'skip' = assumption false, True = property holds on the path, anything else (or
an escaping Exception) = violation carrying that label.

The loop below is CrossHair's `explore_paths` (crosshair/core.py) re-stated so
that every leaf is classified and counted, violating leaves do not stop the
search, UNKNOWN leaves are kept (with a realised input when z3 can give one) and
solver time is measured.
"""
import collections
import inspect
import random
import sys
import time
import traceback
from time import process_time

import z3

import crosshair.core_and_libs  # noqa: F401  (registers the stdlib models)
from crosshair.condition_parser import condition_parser
from crosshair.copyext import CopyMode, deepcopyext
from crosshair.core import ExceptionFilter, Patched, deep_realize, gen_args
from crosshair.options import DEFAULT_OPTIONS, AnalysisOptionSet
from crosshair.statespace import (CallAnalysis, RootNode, StateSpace,
                                  StateSpaceContext, VerificationStatus)
from crosshair.tracers import COMPOSITE_TRACER, NoTracing, ResumedTracing
from crosshair.util import (IgnoreAttempt, NotDeterministic, UnexploredPath)

SKIP = 'skip'


class Z3Stats:
    """Counts z3 `check()` calls and the seconds spent in them."""
    calls = 0
    seconds = 0.0
    installed = False

    @classmethod
    def install(cls):
        if cls.installed:
            return
        cls.installed = True
        orig = z3.Solver.check

        def check(self, *a, **kw):
            t0 = time.perf_counter()
            try:
                return orig(self, *a, **kw)
            finally:
                cls.calls += 1
                cls.seconds += time.perf_counter() - t0
        z3.Solver.check = check


def _plain(v):
    """JSON-able rendering of a realised value."""
    if isinstance(v, (str, int, float, bool)) or v is None:
        return v
    if isinstance(v, (list, tuple)):
        return [_plain(x) for x in v]
    if isinstance(v, dict):
        return {str(k): _plain(x) for k, x in v.items()}
    return repr(v)


class JobResult:
    def __init__(self):
        self.leaves = 0
        self.holds = 0
        self.skipped = 0
        self.unknown = 0
        self.ignored = 0
        self.violations = []      # [{'args':…, 'label':…}]
        self.unknown_inputs = []  # [{'args':…, 'why':…}]
        self.samples = []
        self.exhausted = False
        self.deadline_hit = False
        self.symbolic_holds = 0   # 'holds' leaves with >=1 solver decision on the path
        self.z3_calls = 0
        self.z3_s = 0.0
        self.cpu_s = 0.0
        self.wall_s = 0.0
        self.error = None

    def as_dict(self):
        return dict(self.__dict__)


def explore(fn, budget_s=60.0, per_path_timeout=15.0, seed=0, sample_every=0,
            max_violations=200, max_samples=6, stop_on_violation=False):
    """Explore every feasible path of `fn` over symbolic arguments."""
    Z3Stats.install()
    res = JobResult()
    sig = inspect.signature(fn)
    root = RootNode()
    random.seed(seed)
    z0c, z0s = Z3Stats.calls, Z3Stats.seconds
    t_cpu0, t_wall0 = process_time(), time.perf_counter()
    options = DEFAULT_OPTIONS.overlay(AnalysisOptionSet(
        per_condition_timeout=float(budget_s), per_path_timeout=float(per_path_timeout),
        max_uninteresting_iterations=0))
    options.stats = collections.Counter()
    exhausted = False
    seen_violation_keys = set()
    itr = 0
    while True:
        itr += 1
        itr_start = process_time()
        if itr_start > t_cpu0 + budget_s:
            res.deadline_hit = True
            break
        space = StateSpace(execution_deadline=itr_start + per_path_timeout,
                           model_check_timeout=per_path_timeout / 2,
                           search_root=root)
        status = None
        stop_now = False
        with condition_parser(options.analysis_kind), Patched(), COMPOSITE_TRACER, \
                NoTracing(), StateSpaceContext(space):
            pre_args = None
            try:
                pre_args = gen_args(sig)
                args = deepcopyext(pre_args, CopyMode.REGULAR, {})
                ret = None
                user_exc = None
                with ExceptionFilter() as efilter, ResumedTracing():
                    ret = fn(*args.args, **args.kwargs)
                if efilter.user_exc:
                    if isinstance(efilter.user_exc[0], NotDeterministic):
                        raise NotDeterministic
                    user_exc = efilter.user_exc[0]
                if efilter.ignore and not efilter.user_exc:
                    # IgnoreAttempt inside the harness: treated as an ignored leaf
                    res.ignored += 1
                    status = None
                else:
                    res.leaves += 1
                    with ResumedTracing():
                        ndecisions = len(space.choices_made)
                        if user_exc is not None:
                            label = 'exc:%s' % type(user_exc).__name__
                            kind = 'violation'
                        else:
                            r = deep_realize(ret) if not isinstance(ret, (bool, str)) else ret
                            with NoTracing():
                                if r is True:
                                    kind = 'holds'
                                elif isinstance(r, str) and r == SKIP:
                                    kind = 'skip'
                                else:
                                    kind = 'violation'
                                    label = str(r)
                        if kind == 'holds':
                            res.holds += 1
                            if ndecisions > 0:
                                res.symbolic_holds += 1
                            want = len(res.samples) < max_samples and (
                                sample_every and (res.holds - 1) % sample_every == 0 or
                                (not sample_every and res.holds in (1, 2, 5, 20, 100, 500)))
                            if want:
                                space.detach_path()
                                conc = deep_realize(pre_args)
                                with NoTracing():
                                    res.samples.append(_plain(dict(conc.arguments)))
                        elif kind == 'skip':
                            res.skipped += 1
                        else:
                            space.detach_path()
                            conc = deep_realize(pre_args)
                            with NoTracing():
                                rec = {'args': _plain(dict(conc.arguments)), 'label': label}
                                if user_exc is not None:
                                    rec['exc'] = ''.join(traceback.format_exception_only(
                                        type(user_exc), user_exc)).strip()[:300]
                                if len(res.violations) < max_violations:
                                    res.violations.append(rec)
                                else:
                                    res.violations_truncated = True
                            stop_now = stop_on_violation
                    status = VerificationStatus.CONFIRMED
            except IgnoreAttempt:
                res.ignored += 1
                status = None
            except UnexploredPath as e:
                res.unknown += 1
                status = VerificationStatus.UNKNOWN
                why = '%s: %s' % (type(e).__name__, str(e)[:160])
                rec = {'why': why}
                try:
                    if pre_args is not None and len(res.unknown_inputs) < 50:
                        with ResumedTracing():
                            space.detach_path(e)
                            conc = deep_realize(pre_args)
                        rec['args'] = _plain(dict(conc.arguments))
                except BaseException as e2:  # model extraction is best effort
                    rec['args_error'] = type(e2).__name__
                if len(res.unknown_inputs) < 50:
                    res.unknown_inputs.append(rec)
            _analysis, exhausted = space.bubble_status(CallAnalysis(status))
        if exhausted or stop_now:
            break
    res.exhausted = bool(exhausted)
    res.iterations = itr
    res.z3_calls = Z3Stats.calls - z0c
    res.z3_s = round(Z3Stats.seconds - z0s, 3)
    res.cpu_s = round(process_time() - t_cpu0, 3)
    res.wall_s = round(time.perf_counter() - t_wall0, 3)
    return res
