"""Job description and the worker that runs one job in a fresh process."""
import importlib
import os
import sys
import time
import traceback


class Job:
    """One harness exploration.

    make   'module:function' returning a dict with keys
             fn          the harness (typed function, symbolic arguments)
             twin        same signature, deliberately wrong oracle (must be refuted)
             witnesses   list of concrete kwargs that must give True/'skip'
             assumptions list[str]
             functions   list[str]  emmet functions under test (documentation)
    params kwargs for `make` (the concrete template / partition parameters)
    bound  human-readable bound for this job
    """

    def __init__(self, name, make, params=None, bound='', budget=120.0,
                 per_path_timeout=20.0, twin_budget=60.0, shape='W', weight=None):
        self.name = name
        self.make = make
        self.params = params or {}
        self.bound = bound
        self.budget = budget
        self.per_path_timeout = per_path_timeout
        self.twin_budget = twin_budget
        self.shape = shape
        self.weight = weight if weight is not None else budget

    def spec(self):
        return dict(self.__dict__)


def load_make(make):
    mod, _, name = make.partition(':')
    return getattr(importlib.import_module(mod), name)


def classify(ret):
    if ret is True:
        return 'holds', None
    if isinstance(ret, str) and ret == 'skip':
        return 'skip', None
    return 'violation', str(ret)


def emmet_site(tb):
    """innermost frame inside the emmet package -> 'module.function'"""
    site = None
    for fr in traceback.extract_tb(tb):
        fn = fr.filename.replace('\\', '/')
        if '/emmet/' in fn:
            mod = fn.split('/emmet/', 1)[1][:-3].replace('/', '.')
            if mod.endswith('.__init__'):
                mod = mod[:-9]
            site = 'emmet.%s.%s' % (mod, fr.name)
    return site


def run_concrete(fn, args):
    """Run the harness on concrete args without the engine.
    -> (kind, label, detail)"""
    try:
        ret = fn(**args)
    except Exception as e:  # an escaping exception is a violation of the harness contract
        site = emmet_site(e.__traceback__)
        return 'violation', 'exc:%s' % type(e).__name__, {
            'exception': '%s: %s' % (type(e).__name__, str(e)[:200]), 'site': site}
    kind, label = classify(ret)
    return kind, label, {}


def _functions_entered(fn, witnesses):
    seen = set()
    repo = os.environ.get('VERIF_REPO', '/repo').rstrip('/') + '/emmet/'

    def prof(frame, event, arg):
        if event == 'call':
            f = frame.f_code.co_filename
            if f.startswith(repo):
                seen.add('%s:%s' % (f[len(repo) - 6:], frame.f_code.co_name))
    sys.setprofile(prof)
    try:
        for w in witnesses:
            try:
                fn(**w)
            except Exception:
                pass
    finally:
        sys.setprofile(None)
    return sorted(seen)


def _run_direct(spec, made, out, wit_fail, t0):
    """Shape Z: `direct()` returns dict(queries, unsat, sat=[{'args':…, 'label':…}],
    unknown=[…], z3_s, samples=[…], twin_refuted).  sat models are replayed through fn."""
    fn = made['fn']
    r = made['direct']()
    confirmed, unconfirmed = [], []
    for v in r.get('sat', []):
        kind, label, det = run_concrete(fn, v['args'])
        rec = {'args': v['args'], 'label': label if kind == 'violation' else v['label'],
               'symbolic_label': v['label'], 'detail': det, 'origin': 'solver'}
        (confirmed if kind == 'violation' else unconfirmed).append(rec)
    out['explore'] = {'leaves': r['queries'], 'holds': r['unsat'], 'skipped': r.get('skipped', 0),
                      'unknown': len(r.get('unknown', [])), 'ignored': 0,
                      'exhausted': not r.get('unknown') and not r.get('truncated'),
                      'deadline_hit': bool(r.get('truncated')), 'symbolic_holds': r['unsat'],
                      'z3_calls': r['queries'], 'z3_s': round(r.get('z3_s', 0.0), 3),
                      'cpu_s': round(time.perf_counter() - t0, 2), 'wall_s': round(time.perf_counter() - t0, 2),
                      'iterations': r['queries']}
    out['samples'] = r.get('samples', [])[:6]
    out['unknown_reasons'] = [str(u)[:120] for u in r.get('unknown', [])[:10]]
    out['violations'] = wit_fail + confirmed
    out['unconfirmed'] = unconfirmed
    out['twin'] = {'refuted': bool(r.get('twin_refuted')), 'leaves': r.get('twin_queries', 0), 'cpu_s': 0}
    out['vacuous'] = r['unsat'] == 0
    out['cross_checked'] = r.get('cross_checked')
    if out['violations']:
        out['status'] = 'violation'
    elif unconfirmed:
        out['status'] = 'harness_error'
        out['note'] = 'sat model does not reproduce concretely'
    elif r.get('error'):
        out['status'] = 'harness_error'
        out['note'] = r['error']
    elif not r.get('twin_refuted'):
        out['status'] = 'harness_error'
        out['note'] = 'reachability twin was not refuted'
    elif r.get('unknown') or r.get('truncated'):
        out['status'] = 'inconclusive'
        out['note'] = '%d queries unknown/timeout' % len(r.get('unknown', []))
    else:
        out['status'] = 'holds'
    out['wall_s'] = round(time.perf_counter() - t0, 2)
    return out


def run_job(spec):
    """Worker entry point (fresh process).  Returns a JSON-able dict."""
    import vf  # noqa: F401  (sys.path)
    t0 = time.perf_counter()
    out = {'name': spec['name'], 'bound': spec['bound'], 'shape': spec['shape'],
           'params': spec['params'], 'status': 'error'}
    try:
        from vf import sx
        made = load_make(spec['make'])(**spec['params'])
        if made is None:
            out.update(status='skipped', note='harness not applicable to current source shape')
            return out
        fn = made['fn']
        out['assumptions'] = made.get('assumptions', [])
        out['functions_declared'] = made.get('functions', [])
        if made.get('note'):
            out['note'] = made['note']
        # 1. witnesses (concrete, no engine): validates oracle against known-good inputs
        wit = made.get('witnesses', [])
        wit_fail = []
        nwit_holds = 0
        for w in wit:
            kind, label, det = run_concrete(fn, w)
            if kind == 'violation':
                wit_fail.append({'args': w, 'label': label, 'detail': det, 'origin': 'witness'})
            elif kind == 'holds':
                nwit_holds += 1
        out['witnesses'] = len(wit)
        out['witnesses_holding'] = nwit_holds
        out['functions_entered'] = _functions_entered(fn, wit[:8]) if wit else []
        # 2'. direct solver job (shape Z): the harness talks to z3 itself
        if made.get('direct') is not None:
            return _run_direct(spec, made, out, wit_fail, t0)
        # 2. symbolic exploration
        res = sx.explore(fn, budget_s=spec['budget'], per_path_timeout=spec['per_path_timeout'],
                         seed=int(os.environ.get('VERIF_SEED', '0') or 0))
        d = res.as_dict()
        out['explore'] = {k: d[k] for k in (
            'leaves', 'holds', 'skipped', 'unknown', 'ignored', 'exhausted', 'deadline_hit',
            'symbolic_holds', 'z3_calls', 'z3_s', 'cpu_s', 'wall_s', 'iterations')}
        out['samples'] = d['samples']
        # 3. concrete confirmation of every violating leaf (same interpreter, no engine)
        confirmed, unconfirmed = [], []
        for v in d['violations']:
            kind, label, det = run_concrete(fn, v['args'])
            rec = {'args': v['args'], 'label': label if kind == 'violation' else v['label'],
                   'symbolic_label': v['label'], 'detail': det, 'origin': 'solver'}
            (confirmed if kind == 'violation' else unconfirmed).append(rec)
        # 3b. UNKNOWN leaves: re-run their realised inputs concretely
        unk_checked = 0
        for u in d['unknown_inputs']:
            if 'args' in u:
                unk_checked += 1
                kind, label, det = run_concrete(fn, u['args'])
                if kind == 'violation':
                    confirmed.append({'args': u['args'], 'label': label, 'detail': det,
                                      'origin': 'unknown-leaf', 'why': u['why']})
        out['unknown_reasons'] = sorted(set(u['why'] for u in d['unknown_inputs']))[:10]
        out['unknown_rechecked'] = unk_checked
        # 3c. sampled leaves: engine verdict must agree with plain CPython
        mism = []
        for s in d['samples']:
            kind, label, det = run_concrete(fn, s)
            if kind != 'holds':
                mism.append({'args': s, 'concrete': [kind, label]})
        out['sample_mismatch'] = mism
        out['violations'] = wit_fail + confirmed
        out['unconfirmed'] = unconfirmed
        # 4. reachability twin
        twin = made.get('twin')
        if twin is not None:
            tr = sx.explore(twin, budget_s=spec['twin_budget'],
                            per_path_timeout=spec['per_path_timeout'], max_violations=1,
                            stop_on_violation=True)
            ok = False
            for v in tr.violations:
                kind, _, _ = run_concrete(twin, v['args'])
                ok = ok or kind == 'violation'
            how = 'solver'
            if not ok:
                # the wrong oracle is also reachable when a witness (which satisfies the assumptions) refutes it concretely
                for w in wit:
                    kind, _, _ = run_concrete(twin, w)
                    if kind == 'violation':
                        ok, how = True, 'witness'
                        break
            out['twin'] = {'refuted': ok, 'leaves': tr.leaves, 'cpu_s': tr.cpu_s, 'how': how}
        else:
            out['twin'] = None
        vac = res.holds == 0
        out['vacuous'] = vac
        if out['violations']:
            out['status'] = 'violation'
        elif unconfirmed or mism:
            out['status'] = 'harness_error'
            out['note'] = 'counterexample or sampled leaf does not reproduce concretely'
        elif twin is not None and not out['twin']['refuted']:
            out['status'] = 'harness_error'
            out['note'] = 'reachability twin was not refuted'
        elif vac:
            out['status'] = 'inconclusive'
            out['note'] = 'vacuous: no leaf satisfied the assumptions'
        elif not res.exhausted or res.unknown:
            out['status'] = 'inconclusive'
            out['note'] = ('deadline before exhaustion' if not res.exhausted else
                           '%d UNKNOWN leaves' % res.unknown)
        else:
            out['status'] = 'holds'
    except BaseException as e:  # engine crash etc.
        out['status'] = 'error'
        out['error'] = ''.join(traceback.format_exception(type(e), e, e.__traceback__))[-2000:]
    out['wall_s'] = round(time.perf_counter() - t0, 2)
    return out
