#!/usr/bin/env python3
"""tools/seed_batch.py <round-suffix> <parallel> PROP:N [PROP:N ...]
Runs tools/seed_round.sh for the listed seeded changes, at most <parallel> properties at a time (the changes of one property share
a scratch worktree and run one after the other)."""
import subprocess
import sys
import collections
import time

r, par = sys.argv[1], int(sys.argv[2])
by = collections.OrderedDict()
for it in sys.argv[3:]:
    p, n = it.split(':')
    by.setdefault(p, []).append(n)
queue = list(by.items())
running = []
while queue or running:
    while queue and len(running) < par:
        p, ns = queue.pop(0)
        running.append(subprocess.Popen(['sh', '/verif/tools/seed_round.sh', p, r] + ns))
    time.sleep(1)
    running = [x for x in running if x.poll() is None]
