#!/usr/bin/env python3
"""Evaluate one seeded change against the checks WITHOUT touching /repo:
   tools/seed_eval.py <worktree> <patch.diff> <demo.py> <PROP>[,<PROP>...] [--tier quick] [--only REGEX]
applies the patch in the scratch worktree, runs the test-suite and the demo there, runs the
checks with VERIF_REPO=<worktree> and VERIF_OUT=<scratch>, and reverts the worktree."""
import json
import os
import subprocess
import sys
import tempfile
import time


def sh(cmd, **kw):
    return subprocess.run(cmd, shell=True, capture_output=True, text=True, **kw)


def main():
    wt, patch, demo, props = sys.argv[1:5]
    tier = 'quick'
    only = None
    a = sys.argv[5:]
    if '--tier' in a:
        tier = a[a.index('--tier') + 1]
    if '--only' in a:
        only = a[a.index('--only') + 1]
    res = {'worktree': wt, 'patch': patch, 'props': props, 'tier': tier}
    sh('git checkout -- .', cwd=wt)
    r = sh('/venv/bin/python %s %s' % (demo, wt))
    res['demo_clean_exit'] = r.returncode
    r = sh('git apply %s' % patch, cwd=wt)
    if r.returncode:
        print('patch does not apply', r.stderr)
        return 2
    try:
        r = sh('/venv/bin/python -m pytest -q -p no:cacheprovider 2>&1 | tail -1', cwd=wt)
        res['tests'] = r.stdout.strip()
        r = sh('/venv/bin/python %s %s' % (demo, wt))
        res['demo_patched_exit'] = r.returncode
        res['demo_output'] = (r.stdout + r.stderr)[-600:]
        res['checks'] = {}
        for prop in props.split(','):
            out = tempfile.mkdtemp(prefix='seedout-')
            env = dict(os.environ, VERIF_REPO=wt, VERIF_OUT=out, VERIF_FAST_FAIL=os.environ.get('VERIF_FAST_FAIL', '1'))
            t0 = time.time()
            cmd = 'python3-vt -B -m vf.check %s --tier %s' % (prop, tier)
            if only:
                cmd += " --only '%s'" % only
            r = sh(cmd, cwd=os.path.dirname(os.path.dirname(os.path.abspath(__file__))), env=env)
            lines = r.stdout.splitlines()
            viol = [l for l in lines if l.startswith('VIOLATION')]
            detail = [l.strip() for l in lines if l.strip().startswith('job=')][:4]
            res['checks'][prop] = {'exit': r.returncode, 'violations': len(viol), 'examples': detail,
                                   'wall_s': round(time.time() - t0, 1),
                                   'tail': [l for l in lines if 'tier=' in l or l.startswith(('HARNESS', 'INCONCL'))][:6]}
            sh('rm -rf %s' % out)
    finally:
        sh('git checkout -- .', cwd=wt)
        sh('find . -name __pycache__ -prune -exec rm -rf {} +', cwd=wt)
    print(json.dumps(res, indent=1))
    return 0


if __name__ == '__main__':
    sys.exit(main())
