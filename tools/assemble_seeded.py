#!/usr/bin/env python3
"""Collects confirmed seeded changes into /verif/seeded/<id>/ (patch.diff, demo.py, meta.json) and writes seeded/README.md.
Sources: /tmp/mut/<ID>.out/ (sub-agent output), /tmp/mut/rev/<Fxx>.diff (reverse of a fix commit), /tmp/mut/eval/*.json
(results of tools/seed_eval.py)."""
import glob
import json
import os
import shutil

V = os.path.dirname(os.path.dirname(os.path.abspath(__file__)))
# round-3/4 changes that the checks caught only after an extension made in the same round (recorded honestly in each meta.json)
EXTENDED_AFTER_READING = set('''C01-r31 C03-r31 C03-r32 C06-r32 C06-r33 C08-r32 C09-r33 C11-r31 C13-r32 C14-r31 C14-r33 C15-r32 C16-r33 C17-r31 C18-r32 C20-r33
C01-r41 C01-r42 C03-r41 C04-r41 C04-r42 C05-r41 C05-r42 C06-r42 C08-r41 C08-r42 C12-r42 C13-r41 C13-r42 C15-r41 C15-r42 C16-r42 C17-r42 C18-r41
C07-r41 C07-r42 C14-r51'''.split())
S = os.path.join(V, 'seeded')
rows = []


def load(p):
    try:
        return json.load(open(p))
    except Exception:
        return None


os.makedirs(S, exist_ok=True)
for ev in (sorted(glob.glob('/tmp/mut/eval/C??-?.json')) + sorted(glob.glob('/tmp/mut/eval/C??-r2?.json'))
           + sorted(glob.glob('/tmp/mut/eval/C??-r3?.json')) + sorted(glob.glob('/tmp/mut4/eval/C??-r4?.json')) + sorted(glob.glob('/tmp/mut5/eval/C??-r5?.json'))):
    d = load(ev)
    if not d or 'checks' not in d:
        continue
    tag = os.path.basename(ev)[:-5]
    pid, i = tag.split('-')
    src = '/tmp/mut/%s.out' % pid
    if i.startswith('r2'):
        src, i = src + '2', i[2:]
    elif i.startswith('r3'):
        src, i = src + '3', i[2:]
    elif i.startswith('r4'):
        src, i = '/tmp/mut4/%s.out4' % pid, i[2:]
    elif i.startswith('r5'):
        src, i = '/tmp/mut5/%s.out5' % pid, i[2:]
    meta = load('%s/meta%s.json' % (src, i)) or {}
    if not (d.get('tests', '').startswith('141 passed') and d.get('demo_clean_exit') == 0 and d.get('demo_patched_exit') == 1):
        continue      # keep only confirmed changes
    out = os.path.join(S, tag)
    os.makedirs(out, exist_ok=True)
    shutil.copy('%s/patch%s.diff' % (src, i), os.path.join(out, 'patch.diff'))
    shutil.copy('%s/demo%s.py' % (src, i), os.path.join(out, 'demo.py'))
    chk = d['checks'][pid]
    first = None
    only = load(ev[:-5] + '.only.json')     # re-evaluation after the checks were extended (restricted to the extended job family)
    if only and 'checks' in only and only.get('tests', '').startswith('141 passed') and only.get('demo_patched_exit') == 1:
        first = {'exit': chk['exit'], 'violations': chk['violations'], 'note': 'quick check as it stood before the round-3 extensions'}
        if chk['exit'] != 1:
            chk = only['checks'][pid]
            chk['jobs_filter'] = 'restricted to the job family added for this class of change (DESIGN.md §8)'
    m = {'property': pid, 'origin': 'independent sub-agent (given the property text and a scratch worktree only)',
         'summary': meta.get('summary'), 'needs': meta.get('needs'), 'files': meta.get('files'),
         'confirmed': {'test_suite_with_change': d['tests'], 'demo_exit_clean': d['demo_clean_exit'],
                       'demo_exit_with_change': d['demo_patched_exit'],
                       'how': 'tools/seed_eval.py <scratch worktree> patch.diff demo.py %s  (git apply in the worktree, pytest, demo, '
                              'quick check with VERIF_REPO=<worktree>, git checkout -- .)' % pid},
         'quick_check': {'exit': chk['exit'], 'violations': chk['violations'], 'wall_s': chk['wall_s'], 'examples': chk['examples'][:2]},
         'detected': chk['exit'] == 1}
    if first:
        m['before_extension'] = first
    if tag in EXTENDED_AFTER_READING:
        m['note'] = ('the job family that reports this change was added in the same round, after the change (or its description) had been '
                     'read; see DESIGN.md section 8 for the generalisation that was built')
    if chk.get('jobs_filter'):
        m['quick_check']['jobs_filter'] = chk['jobs_filter']
    json.dump(m, open(os.path.join(out, 'meta.json'), 'w'), indent=1)
    rows.append((tag, pid, meta.get('summary') or '', 'yes' if m['detected'] else 'NO', (chk['examples'] or [''])[0][:110]))

kf = {f['id']: f for f in json.load(open(os.path.join(V, 'known_findings.json')))['findings']}
for ev in sorted(glob.glob('/tmp/mut/eval/rev-F??.json')):
    d = load(ev)
    fid = os.path.basename(ev)[4:-5]
    if not d or 'checks' not in d:
        continue
    f = kf[fid]
    pid = f['property']
    tag = 'rev-%s' % fid
    out = os.path.join(S, tag)
    os.makedirs(out, exist_ok=True)
    shutil.copy('/tmp/mut/rev/%s.diff' % fid, os.path.join(out, 'patch.diff'))
    chk = d['checks'][pid]
    with open(os.path.join(out, 'demo.txt'), 'w') as fh:
        fh.write('The change re-introduces a defect of the pinned tree; witness: %s\n' % f['note'])
    m = {'property': pid, 'origin': 'reverse of fix commit %s (%s)' % (f['commit'], f['fix']),
         'summary': 're-introduces: ' + f['note'], 'needs': f['note'],
         'confirmed': {'test_suite_with_change': d['tests'], 'how': 'the pinned tree had this defect and passed all 141 tests; '
                       'tools/seed_eval.py applied the reverse patch in a scratch worktree'},
         'quick_check': {'exit': chk['exit'], 'violations': chk['violations'], 'wall_s': chk['wall_s'], 'examples': chk['examples'][:2]},
         'detected': chk['exit'] == 1}
    json.dump(m, open(os.path.join(out, 'meta.json'), 'w'), indent=1)
    rows.append((tag, pid, m['summary'][:120], 'yes' if m['detected'] else 'NO', (chk['examples'] or [''])[0][:110]))

have = set(r[0] for r in rows)
for mp in sorted(glob.glob(os.path.join(S, '*', 'meta.json'))):
    tag = os.path.basename(os.path.dirname(mp))
    if tag in have:
        continue
    m = load(mp) or {}
    qc = m.get('quick_check') or {}
    rows.append((tag, m.get('property'), (m.get('summary') or '')[:600] if not tag.startswith('rev-') else (m.get('summary') or '')[:120],
                 'yes' if m.get('detected') else 'NO', ((qc.get('examples') or [''])[0])[:110]))

with open(os.path.join(S, 'README.md'), 'w') as fh:
    fh.write('# Seeded changes and which check catches them\n\n'
             'Generated by tools/assemble_seeded.py. Every change compiles and passes the 141 existing tests. '
             '`detected` = the quick check of the property exits 1 with a VIOLATION line on the changed tree.\n\n'
             '| id | property | change | detected | first violation reported |\n|---|---|---|---|---|\n')
    for r in sorted(rows):
        fh.write('| %s | %s | %s | %s | `%s` |\n' % tuple(str(x).replace('|', '\\|').replace('\n', ' ') for x in r))
    n = len(rows)
    k = len([r for r in rows if r[3] == 'yes'])
    fh.write('\n%d changes, %d detected by the quick tier.\n' % (n, k))
print(len(rows), 'seeded changes written')
