#!/bin/sh
# tools/seed_round.sh <PROP> <round-suffix e.g. 3> [N...]  -- evaluates /tmp/mut/<PROP>.out<suffix>/patchN.diff in the scratch
# worktree /tmp/mut/<PROP> against the quick check of <PROP>; result in /tmp/mut/eval/<PROP>-r<suffix>N.json
p=$1; r=$2; shift 2
root=${MUT_ROOT:-/tmp/mut}
[ $# -eq 0 ] && set -- 1 2 3
mkdir -p $root/eval
for n in "$@"; do
  d=$root/$p.out$r
  [ -f $d/patch$n.diff ] || continue
  python3 /verif/tools/seed_eval.py $root/$p $d/patch$n.diff $d/demo$n.py $p > $root/eval/$p-r$r$n.json 2>&1
  python3 - <<EOF
import json
try:
    d=json.load(open('$root/eval/$p-r$r$n.json'))
    c=d['checks']['$p']
    print('$p-r$r$n', 'tests=%s'%d['tests'][:12], 'demo clean/patched=%s/%s'%(d['demo_clean_exit'],d['demo_patched_exit']), 'check exit=%s viol=%s wall=%s'%(c['exit'],c['violations'],c['wall_s']), (c['examples'] or [''])[0][:150])
except Exception as e:
    print('$p-r$r$n EVAL-ERROR', e)
EOF
done
